package main

// Bounded stand-in for lineCounter (C17): byte scanning with carry-over between reads is outside the
// verifier's subset. Exhaustive within the bound: every file over {a, ' ', \r, \n} up to the length bound,
// delivered to lineCounter in every possible chunking of the reads, compared with the number of non-empty
// lines bufio.Scanner yields (that is how hermes2go reads the batch file).

import (
	"bufio"
	"bytes"
	"fmt"
	"io"
	"os"
	"testing"
)

type chunkReader struct {
	data []byte
	cuts uint // bit i set: a read ends after byte i
	pos  int
}

func (c *chunkReader) Read(p []byte) (int, error) {
	if c.pos >= len(c.data) {
		return 0, io.EOF
	}
	end := c.pos + 1
	for end < len(c.data) && c.cuts&(1<<uint(end-1)) == 0 {
		end++
	}
	n := copy(p, c.data[c.pos:end])
	c.pos += n
	return n, nil
}

func scannerLines(data []byte) uint64 {
	sc := bufio.NewScanner(bytes.NewReader(data))
	var n uint64
	for sc.Scan() {
		if len(sc.Text()) > 0 {
			n++
		}
	}
	return n
}

func TestHvcBoundedLineCounter(t *testing.T) {
	maxLen := 7
	if os.Getenv("HVC_BOUND") == "thorough" {
		maxLen = 9
	}
	alphabet := []byte{'a', ' ', '\r', '\n'}
	cases, failures := 0, 0
	first := ""
	for n := 0; n <= maxLen; n++ {
		total := 1
		for i := 0; i < n; i++ {
			total *= len(alphabet)
		}
		data := make([]byte, n)
		for code := 0; code < total; code++ {
			c := code
			for i := 0; i < n; i++ {
				data[i] = alphabet[c%len(alphabet)]
				c /= len(alphabet)
			}
			want := scannerLines(data)
			ncuts := uint(1)
			if n > 1 {
				ncuts = 1 << uint(n-1)
			}
			for cuts := uint(0); cuts < ncuts; cuts++ {
				cases++
				got, err := lineCounter(&chunkReader{data: data, cuts: cuts})
				if err != nil || got != want {
					failures++
					if first == "" {
						first = fmt.Sprintf("file=%q cuts=%b got=%d want=%d", data, cuts, got, want)
					}
				}
			}
		}
	}
	// a file larger than the 32 KiB read buffer with line ends on and around the buffer boundary
	for _, off := range []int{32766, 32767, 32768, 32769} {
		for _, eol := range []string{"\n", "\r\n"} {
			var b bytes.Buffer
			for b.Len() < off-1 {
				b.WriteString("x")
			}
			b.WriteString(eol + "y" + eol + eol + "z")
			cases++
			got, err := lineCounter(bytes.NewReader(b.Bytes()))
			if want := scannerLines(b.Bytes()); err != nil || got != want {
				failures++
				if first == "" {
					first = fmt.Sprintf("long file: first line of %d bytes, eol %q: got=%d want=%d", off-1, eol, got, want)
				}
			}
		}
	}
	fmt.Printf("BOUNDED name=lineCounter cases=%d failures=%d bound=files<=%d-bytes-over-4-symbols-all-chunkings first=%s\n", cases, failures, maxLen, first)
	if failures > 0 {
		t.Fail()
	}
}
