package hermes

// Exhaustive stand-in (finite domain) for the file naming of the one-file-per-year weather layout (C04): string
// building is outside the verifier (strings are opaque), but the domain is finite: for every year 1910..2099 the
// extension must be the last three digits of the calendar year, so that the file of exactly that year is opened.

import (
	"fmt"
	"testing"
)

func TestHvcBoundedYearExtension(t *testing.T) {
	cases, failures := 0, 0
	first := ""
	for year := 1910; year <= 2099; year++ {
		cases++
		j := year - 1900
		want := fmt.Sprintf("%03d", year%1000)
		if got := yearToExtension(j); got != want {
			failures++
			if first == "" {
				first = fmt.Sprintf("year=%d extension=%q want=%q", year, got, want)
			}
		}
	}
	fmt.Printf("BOUNDED name=yearExtension cases=%d failures=%d bound=exhaustive-years-1910..2099 first=%s\n", cases, failures, first)
	if failures > 0 {
		t.Fail()
	}
}
