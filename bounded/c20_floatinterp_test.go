package hermes

// Bounded stand-in for the float64 side of the interpolation (C20: "between two given dates it is their linear
// interpolation (hence between the two values)"): the contract proves the formula over the reals, where round-off does
// not exist. In float64 a level between two EQUAL values must be exactly that value (otherwise the day loop sees a
// groundwater change that never happened), and a level between two different values must not leave their interval.

import (
	"fmt"
	"math"
	"os"
	"testing"
)

func TestHvcBoundedFloatInterpolation(t *testing.T) {
	maxGap := 120
	if os.Getenv("HVC_BOUND") == "thorough" {
		maxGap = 400
	}
	cases, failures := 0, 0
	first := ""
	levels := []float64{}
	for k := 1; k <= 300; k += 7 {
		levels = append(levels, float64(k)/10)
	}
	g := NewGlobalVarsMain()
	for gap := 2; gap <= maxGap; gap++ {
		prev, next := 40000, 40000+gap
		for li, a := range levels {
			for _, b := range []float64{a, levels[(li*5+3)%len(levels)]} {
				g.GWTimeSeriesValues = map[int]float64{prev: a, next: b}
				g.GWTimestamps = []int{prev, next}
				for d := prev + 1; d < next; d++ {
					cases++
					got, err := GetGroundWaterLevel(&g, d)
					lo, hi := math.Min(a, b), math.Max(a, b)
					if err != nil || got < lo || got > hi || math.IsNaN(got) {
						failures++
						if first == "" {
							first = fmt.Sprintf("levels %v (day %d) and %v (day %d): level of day %d is %.17g, outside [%v, %v] err=%v", a, prev, b, next, d, got, lo, hi, err)
						}
					}
				}
			}
		}
	}
	fmt.Printf("BOUNDED name=floatInterp cases=%d failures=%d bound=gaps<=%d-days first=%s\n", cases, failures, maxGap, first)
	if failures > 0 {
		t.Fail()
	}
}
