package hermes

// Bounded stand-in for the clause "wilting point < field capacity" of PTF4 (C15): the cubic in three variables has a
// margin of only 0.009 at the sandy corner of the domain and the SMT solvers do not decide it in budget
// (0 < wmin and fc < 1 ARE proved). Grid evaluation of the real function over the property's domain.

import (
	"fmt"
	"os"
	"testing"
)

func TestHvcBoundedPTF4(t *testing.T) {
	stepC, stepT := 0.05, 0.25
	if os.Getenv("HVC_BOUND") == "thorough" {
		stepC, stepT = 0.02, 0.1
	}
	cases, failures := 0, 0
	first := ""
	minMargin := 1.0
	for c := 0.0; c <= 6.0+1e-9; c += stepC {
		for clay := 5.0; clay <= 90.0+1e-9; clay += stepT {
			for sand := 5.0; sand <= 85.0+1e-9; sand += stepT {
				if 100-clay-sand < 5 {
					continue
				}
				cases++
				fc, wmin := PTF4(c, clay, sand)
				if fc-wmin < minMargin {
					minMargin = fc - wmin
				}
				if !(0 < wmin && wmin < fc && fc < 1) {
					failures++
					if first == "" {
						first = fmt.Sprintf("C=%v clay=%v sand=%v fc=%v wmin=%v", c, clay, sand, fc, wmin)
					}
				}
			}
		}
	}
	fmt.Printf("BOUNDED name=PTF4order cases=%d failures=%d bound=grid-C-%v-clay/sand-%v-min-margin-%.5f first=%s\n", cases, failures, stepC, stepT, minMargin, first)
	if failures > 0 {
		t.Fail()
	}
}
