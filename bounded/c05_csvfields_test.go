package hermes

// Bounded stand-in for the byte layout of a CSV record (C05: "every record has exactly as many fields as the output
// configuration defines columns"): the contract on WriteLine proves one field per column is handed to the line, but how
// the fields are joined is string handling outside the verifier. For every record of up to 6 columns whose fields are
// empty or not (and do not contain the separator) the bytes written must split into exactly that many fields, in order.

import (
	"fmt"
	"os"
	"strings"
	"testing"
)

type hvcCaptureWriter struct{ sb strings.Builder }

func (w *hvcCaptureWriter) Write(s string) (int, error)      { return w.sb.WriteString(s) }
func (w *hvcCaptureWriter) WriteBytes(b []byte) (int, error) { return w.sb.Write(b) }
func (w *hvcCaptureWriter) WriteRune(r rune) (int, error)    { return w.sb.WriteRune(r) }
func (w *hvcCaptureWriter) WriteError(e error) (int, error)  { return w.sb.WriteString(e.Error()) }
func (w *hvcCaptureWriter) Close()                           {}

func TestHvcBoundedCSVFields(t *testing.T) {
	maxCols := 6
	if os.Getenv("HVC_BOUND") == "thorough" {
		maxCols = 8
	}
	values := []string{"", "x", " 12.5"}
	cases, failures := 0, 0
	first := ""
	for _, sep := range []rune{',', ';'} {
		for n := 1; n <= maxCols; n++ {
			total := 1
			for i := 0; i < n; i++ {
				total *= len(values)
			}
			for code := 0; code < total; code++ {
				fields := make([]string, n)
				c := code
				for i := 0; i < n; i++ {
					fields[i] = values[c%len(values)]
					c /= len(values)
				}
				line := NewOutputLine(n)
				for _, f := range fields {
					line.Add("%s", f)
				}
				w := &hvcCaptureWriter{}
				err := line.writeCSVString(w, sep)
				cases++
				got := strings.TrimSuffix(w.sb.String(), "\r\n")
				parts := strings.Split(got, string(sep))
				bad := ""
				if err != nil {
					bad = "error " + err.Error()
				} else if len(parts) != n {
					bad = fmt.Sprintf("%d fields written for %d columns", len(parts), n)
				} else {
					for i := range parts {
						if parts[i] != fields[i] {
							bad = fmt.Sprintf("field %d is %q, want %q", i+1, parts[i], fields[i])
							break
						}
					}
				}
				if bad != "" {
					failures++
					if first == "" {
						first = fmt.Sprintf("separator %q fields %q record %q: %s", sep, fields, w.sb.String(), bad)
					}
				}
			}
		}
	}
	fmt.Printf("BOUNDED name=csvFields cases=%d failures=%d bound=records<=%d-columns first=%s\n", cases, failures, maxCols, first)
	if failures > 0 {
		t.Fail()
	}
}
