package hermes

// Bounded stand-in for the id matching of the groundwater series reader (C20): string indexing is outside the
// verifier (strings are opaque). A line belongs to the polygon's series iff it starts with the id followed by a
// field separator; a line of another id that merely starts with the same characters must not be taken, and no
// line may crash the reader. Characters other than the three separators and id characters directly after the id
// are left open (a reader that also accepted a tab would not be reported).

import (
	"fmt"
	"os"
	"testing"
)

func TestHvcBoundedPrefixSeparator(t *testing.T) {
	alphabet := []byte{'1', '2', 'a', ',', ';', ' ', '\t', '.'}
	maxS, maxP := 5, 3
	if os.Getenv("HVC_BOUND") == "thorough" {
		maxS, maxP = 6, 4
	}
	var all []string
	var gen func(cur []byte, n int)
	gen = func(cur []byte, n int) {
		all = append(all, string(cur))
		if n == 0 {
			return
		}
		for _, c := range alphabet {
			gen(append(cur, c), n-1)
		}
	}
	gen(nil, maxS)
	isID := func(c byte) bool { return c == '1' || c == '2' || c == 'a' || c == '.' }
	isSep := func(c byte) bool { return c == ',' || c == ';' || c == ' ' }
	cases, failures := 0, 0
	first := ""
	call := func(s, p string) (res bool, panicked bool) {
		defer func() {
			if r := recover(); r != nil {
				panicked = true
			}
		}()
		return HasPrefixWithSeperator(s, p), false
	}
	for _, p := range all {
		if len(p) == 0 || len(p) > maxP {
			continue
		}
		idOnly := true
		for i := 0; i < len(p); i++ {
			if !isID(p[i]) {
				idOnly = false
			}
		}
		if !idOnly {
			continue
		}
		for _, s := range all {
			cases++
			got, panicked := call(s, p)
			bad := ""
			has := len(s) >= len(p) && s[:len(p)] == p
			switch {
			case panicked:
				bad = "panics"
			case !has && got:
				bad = "accepts a line that does not start with the id"
			case has && len(s) > len(p) && isSep(s[len(p)]) && !got:
				bad = "rejects id followed by a separator"
			case has && len(s) > len(p) && isID(s[len(p)]) && got:
				bad = "accepts a line of a longer id"
			case has && len(s) == len(p) && got:
				bad = "accepts a line without any value field"
			}
			if bad != "" {
				failures++
				if first == "" {
					first = fmt.Sprintf("line=%q id=%q: %s", s, p, bad)
				}
			}
		}
	}
	fmt.Printf("BOUNDED name=prefixSeparator cases=%d failures=%d bound=lines<=%d-ids<=%d first=%s\n", cases, failures, maxS, maxP, first)
	if failures > 0 {
		t.Fail()
	}
}
