#!/bin/bash
# usage: try_patch.sh <patch.diff> <PROP> [<PROP>...]   -- run checks against a scratch copy of /repo with the patch applied
set -u
PATCH=$1; shift
SCR=$(mktemp -d /tmp/hvc-scr.XXXXXX)
OUT=$(mktemp -d /tmp/hvc-out.XXXXXX)
rsync -a --exclude .git --exclude examples --exclude doc /repo/ $SCR/
(cd $SCR && patch -s -p1 < $PATCH) || { echo "patch failed"; rm -rf $SCR $OUT; exit 3; }
rc=0
for P in "$@"; do
  HVC_REPO=$SCR HVC_OUT=$OUT ${HVC_BIN:-/verif/bin/hvc} check $P 2>&1 | grep -E "VIOLATION|KNOWN|broken|discharged" | cut -c1-260
  [ ${PIPESTATUS[0]} -ne 0 ] && rc=1
done
rm -rf $SCR $OUT
exit $rc
