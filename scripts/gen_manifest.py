#!/opt/veriftools/pyvenv/bin/python3
# Regenerates /verif/MANIFEST.json from the table below (kept in one place so that it always validates).
import json, subprocess, sys
ENV = "GOFLAGS=-mod=mod GOPROXY=off GOSUMDB=off GOTOOLCHAIN=local GOWORK=off"
claimed = json.load(open('/verif/scripts/claims.json'))
na = json.load(open('/verif/scripts/not_applicable.json'))
checks = []
for pid in sorted(claimed):
    c = claimed[pid]
    checks.append({
        "property_id": pid,
        "quick_cmd": "./bin/hvc check %s --tier quick" % pid,
        "thorough_cmd": "./bin/hvc check %s --tier thorough" % pid,
        "evidence_file": "/verif/evidence/%s.json" % pid,
        "replay_cmd_template": "./bin/hvc replay {path}",
        "engine": "hvc",
        "level_claimed": {"category": "proof", "text": c["text"], "design_ref": c.get("design_ref", "DESIGN.md section 4")},
        "level_note": c["note"],
        "technique": c.get("technique", "contract-based deductive verification: weakest-precondition style VCs generated from the real Go AST (go/types), contracts in //@ comments, discharged by z3/cvc5"),
    })
m = {
    "version": 1,
    "setup_cmd": "cd /verif/engine && %s go build -o ../bin/hvc ./cmd/hvc" % ENV,
    "hooks": {
        "guard": "verif",
        "enable": "-tags verif (comment-only contract files verif_contracts.go; read by hvc, never compiled into the program)",
        "baseline_off_cmd": json.load(open('/root/.vp/BASELINE.json'))["cmd"],
        "source_commits": json.load(open('/verif/scripts/hook_commits.json')),
        "add_only": True,
    },
    "engines": [{"name": "hvc", "path": "/verif/engine", "serves_properties": sorted(claimed),
                 "kind_free_text": "home-made VC generator for Go (go/packages + go/ast + go/types), Gobra-style contracts in guarded comment files, SMT portfolio z3 4.8.12 / z3 5.1.0 / cvc5 1.0.3"}],
    "checks": checks,
    "not_applicable": [{"property_id": k, "reason": v} for k, v in sorted(na.items())],
    "notes": "See DESIGN.md. Exit codes of hvc check: 0 pass (KNOWN-FINDING lines possible), 1 VIOLATION, 2 broken check (contract cannot bind, vacuous precondition, missing obligations).",
}
json.dump(m, open('/verif/MANIFEST.json', 'w'), indent=1)
import jsonschema
jsonschema.validate(m, json.load(open('/root/.vp/MANIFEST.schema.json')))
ids = set(claimed) | set(na)
allp = [json.loads(l)['id'] for l in open('/verif/properties.jsonl')]
missing = [p for p in allp if p not in ids]
print("manifest ok; claimed", len(claimed), "n/a", len(na), "missing", missing)
