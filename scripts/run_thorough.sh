#!/bin/bash
# runs the thorough tier of every claimed property (agreement of the three solvers, larger bounded stand-ins, encoder
# cross-check, must-fail corpus); one line per property
cd /verif
rc=0
for p in $(python3 -c "import json;print(' '.join(c['property_id'] for c in json.load(open('MANIFEST.json'))['checks']))"); do
  t0=$(date +%s)
  out=$(./bin/hvc check $p --tier thorough 2>&1); r=$?
  echo "$out" | grep -E "VIOLATION|broken" | head -5
  echo "$(echo "$out" | tail -1)  [exit $r, $(( $(date +%s) - t0 )) s]"
  [ $r -ne 0 ] && rc=1
done
exit $rc
