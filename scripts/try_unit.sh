#!/bin/bash
# usage: try_unit.sh <patch.diff> <pkgdir> <unit> [hvc unit flags...]   -- verify one unit against a scratch copy of /repo with the patch applied
set -u
PATCH=$1; shift
SCR=$(mktemp -d /tmp/hvc-scr.XXXXXX)
rsync -a --exclude .git --exclude examples --exclude doc /repo/ $SCR/
(cd $SCR && patch -s -p1 < $PATCH) || { echo "patch failed"; rm -rf $SCR; exit 3; }
HVC_REPO=$SCR /verif/bin/hvc unit "$@" 2>&1 | grep -vE "^ok |abstracted"
rm -rf $SCR
