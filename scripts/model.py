#!/usr/bin/env python3
# usage: model.py <model.txt> [substring...]   -- print scalar values of a z3 model, without path-condition symbols
import re, sys
s = open(sys.argv[1]).read()
keys = sys.argv[2:]
for m in re.finditer(r'\(define-fun (\|[^|]*\||\S+) \(\) (Real|Int|Bool)\s+([^\n]*)\)', s):
    n = m.group(1).strip('|')
    if n.startswith('pc!') or n.startswith('cond!'): continue
    if keys and not any(k in n for k in keys): continue
    print(n, '=', m.group(3))
