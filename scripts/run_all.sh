#!/bin/bash
# runs the quick check of every claimed property; prints one line per property; exit 1 if any fails
cd /verif
rc=0
for p in $(python3 -c "import json;print(' '.join(c['property_id'] for c in json.load(open('MANIFEST.json'))['checks']))"); do
  out=$(./bin/hvc check $p 2>&1); r=$?
  echo "$out" | grep -E "VIOLATION|broken" | head -5
  echo "$out" | tail -1
  [ $r -ne 0 ] && rc=1
done
exit $rc
