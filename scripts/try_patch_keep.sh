#!/bin/bash
# usage: try_patch_keep.sh <patch.diff> <PROP>   -- like try_patch.sh but prints the replay files of the violations
set -u
PATCH=$1; P=$2
SCR=$(mktemp -d /tmp/hvc-scr.XXXXXX)
OUT=$(mktemp -d /tmp/hvc-out.XXXXXX)
rsync -a --exclude .git --exclude doc /repo/ $SCR/
(cd $SCR && patch -s -p1 < $PATCH) || { echo "patch failed"; rm -rf $SCR $OUT; exit 3; }
HVC_REPO=$SCR HVC_OUT=$OUT ${HVC_BIN:-/verif/bin/hvc} check $P 2>&1 | grep -E "VIOLATION|KNOWN|broken|discharged" | cut -c1-300
for f in $OUT/replay/$P/*.json; do echo "== $f"; python3 -c "
import json,sys
r=json.load(open('$f'))
print('replayed:',r['replayed']); print(r.get('replay_log','')[:1500]); print({k:v for k,v in list(r.get('model',{}).items())[:30]})
"; done
rm -rf $SCR $OUT
