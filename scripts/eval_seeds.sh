#!/bin/bash
# usage: eval_seeds.sh <dir-with-Cxx/out/N/patch.diff or seeded dir> [PROP ...]  -- run the property's check on a scratch copy with each seeded patch
ROOT=${1:-/tmp/seed}; shift
PROPS=${@:-$(ls $ROOT)}
for P in $PROPS; do
  for D in $ROOT/$P/out/* $ROOT/$P-*; do
    [ -f $D/patch.diff ] || continue
    SCR=$(mktemp -d /tmp/hvc-scr.XXXXXX); OUT=$(mktemp -d /tmp/hvc-out.XXXXXX)
    rsync -a --exclude .git --exclude examples --exclude doc /repo/ $SCR/
    if ! (cd $SCR && patch -s -p1 --no-backup-if-mismatch < $D/patch.diff >/dev/null 2>&1); then echo "$P $D: PATCH DOES NOT APPLY"; rm -rf $SCR $OUT; continue; fi
    PID=${P%%-*}
    RES=$(HVC_REPO=$SCR HVC_OUT=$OUT timeout 600 ${HVC_BIN:-/verif/bin/hvc} check $PID 2>&1)
    RC=$?
    V=$(echo "$RES" | grep -c "^VIOLATION")
    FIRST=$(echo "$RES" | grep "^VIOLATION" | head -2 | sed 's/.*obligation=//' | tr '\n' ';')
    BR=$(echo "$RES" | grep -c "broken check")
    echo "$P $(basename $D): rc=$RC violations=$V broken=$BR $FIRST $(echo "$RES" | tail -1 | cut -c1-90)"
    rm -rf $SCR $OUT
  done
done
