#!/bin/bash
# runs the thorough tier of every claimed property from the CURRENT directory (a snapshot of /verif made by `vp run`):
# builds hvc there and points it at the snapshot's contracts/seeds, so that edits of /verif do not disturb the run.
# Evidence goes to a scratch directory (thorough evidence is not committed from a snapshot).
ROOT=$(pwd)
export GOFLAGS=-mod=mod GOPROXY=off GOSUMDB=off GOTOOLCHAIN=local GOWORK=off
(cd engine && go build -o ../bin/hvc ./cmd/hvc) || exit 2
OUT=$(mktemp -d /tmp/thor-out.XXXXXX)
for p in ${@:-C12 C17 C18 C20 C16 C11 C05 C10 C04 C15 C19 C09 C07 C01 C08 C02 C06}; do
  t0=$(date +%s)
  out=$(HVC_VERIF=$ROOT HVC_OUT=$OUT ./bin/hvc check $p --tier thorough 2>&1); r=$?
  echo "$out" | grep -E "VIOLATION|broken|vacu|MISSED|not caught|audit" | head -8
  echo "$(echo "$out" | tail -1)  [exit $r, $(( $(date +%s) - t0 )) s]"
done
rm -rf $OUT
