#!/bin/bash
# usage: baseline_check.sh [repo-dir]  -- runs the pinned suite (package hermes + the small modules) and compares the set of
# passing test names with the 1610 stable passes of /root/.vp/BASELINE.json; prints missing names; exit 1 if any is missing
R=${1:-/repo}
export GOFLAGS=-mod=mod GOWORK=off GOPROXY=off GOSUMDB=off GOTOOLCHAIN=local
TMP=$(mktemp -d /tmp/hvc-base.XXXXXX)
for m in $(cat /w/out/gomods.txt); do (cd $R/$m && go test -json -vet=off -count=1 -timeout 25m ./... 2>/dev/null); done > $TMP/out.json
python3 - $TMP/out.json <<'PY'
import json,sys
passed=set()
for l in open(sys.argv[1]):
    try: e=json.loads(l)
    except: continue
    if e.get('Action')=='pass' and e.get('Test'): passed.add(e['Package']+'::'+e['Test'])
want=json.load(open('/root/.vp/BASELINE.json'))['stable_pass']
missing=[w for w in want if w not in passed]
print(f"stable passes: {len(want)}, passing now: {len(want)-len(missing)}, missing: {len(missing)}")
for m in missing[:20]: print("  MISSING", m)
sys.exit(1 if missing else 0)
PY
rc=$?
rm -rf $TMP
exit $rc
