#!/bin/bash
# usage: confirm_seed.sh <seed-dir>   (seed-dir holds patch.diff, *_test.go demo files, demo.txt)
# confirms in a scratch worktree of /repo HEAD: demo passes without the change, patch applies and builds,
# demo fails with the change, the 1610 baseline passes still pass. Prints one summary line; exit 0 iff all confirmed.
D=$(readlink -f $1)
export GOFLAGS=-mod=mod GOWORK=off GOPROXY=off GOSUMDB=off GOTOOLCHAIN=local
W=$(mktemp -d /tmp/hvc-cs.XXXXXX); rmdir $W
git -C /repo worktree add -q --detach $W HEAD || { echo "$D: worktree failed"; exit 2; }
trap 'git -C /repo worktree remove --force $W >/dev/null 2>&1; rm -rf $W' EXIT
# the package directory follows from the package clause of the demonstration (package main: the module named in demo.txt)
PKG=hermes
if grep -q "^package main" $D/*_test.go; then
  PKG=src/hermes2go
  grep -q "src/calcHermesBatch/zz\|placed at .src/calcHermesBatch\|cd src/calcHermesBatch" $D/demo.txt 2>/dev/null && PKG=src/calcHermesBatch
fi
TESTS=$(cat $D/*_test.go | grep -o '^func Test[A-Za-z0-9_]*' | sed 's/func //' | grep -v TestMain | paste -sd'|')
cp $D/*_test.go $W/$PKG/
run_demo() { (cd $W/$PKG && timeout 300 go test -vet=off -count=1 -run "^($TESTS)\$" . 2>&1); }
OUT0=$(run_demo); R0=$?
if ! git -C $W apply $D/patch.diff 2>/dev/null; then echo "$D: PATCH-DOES-NOT-APPLY"; exit 1; fi
B=0; for m in hermes src/hermes2go src/calcHermesBatch; do (cd $W/$m && go build ./... >/dev/null 2>&1) || B=1; done
OUT1=$(run_demo); R1=$?
rm -f $W/$PKG/zz_*_test.go
BASE=$(/verif/scripts/baseline_check.sh $W 2>&1 | head -1)
echo "$D: demo-unchanged=$R0 build=$B demo-changed=$R1 baseline=[$BASE]"
[ $R0 -eq 0 ] && [ $B -eq 0 ] && [ $R1 -ne 0 ] && echo "$BASE" | grep -q "missing: 0"
