package main

import (
	"flag"
	"fmt"
	"go/ast"
	"go/token"
	"go/types"
	"os"
	"sort"
	"strings"
)

type UnitResult struct {
	UC          *UnitContract
	Unit        *FuncUnit
	Exec        *Exec
	Obligations []*Obligation
	Errors      []string
	SrcRange    string
	Stmts       int
	Entry       *State
}

func (x *Exec) bindEntryParams(st *State) {
	fu := x.unit
	info := fu.Pkg.TypesInfo
	bindVar := func(n *ast.Ident) {
		obj, ok := info.Defs[n].(*types.Var)
		if !ok {
			return
		}
		key := x.varKey(obj)
		if p, ok := obj.Type().Underlying().(*types.Pointer); ok {
			st.ptrs[key] = &Loc{Key: key, T: p.Elem(), KeyT: p.Elem()}
		}
	}
	// the enclosing declaration's parameters are visible to closures, too
	units := []*FuncUnit{fu}
	if fu.Lit != nil {
		units = append(units, &FuncUnit{Decl: fu.Decl, Type: fu.Decl.Type, Pkg: fu.Pkg})
	}
	for _, u := range units {
		if u.Decl != nil && u.Decl.Recv != nil {
			for _, f := range u.Decl.Recv.List {
				for _, n := range f.Names {
					bindVar(n)
				}
			}
		}
		for _, f := range u.Type.Params.List {
			for _, n := range f.Names {
				bindVar(n)
			}
		}
	}
}

func stmtCount(n ast.Node) int {
	c := 0
	ast.Inspect(n, func(nd ast.Node) bool {
		if _, ok := nd.(ast.Stmt); ok {
			c++
		}
		return true
	})
	return c
}

// activeProp restricts generation to the clauses serving one property (tagged with it, or untagged).
var activeProp string

func on(tags []string) bool {
	return activeProp == "" || hasTag(tags, activeProp)
}

func VerifyUnit(prog *Program, cs *ContractSet, uc *UnitContract) *UnitResult {
	res := &UnitResult{UC: uc}
	if uc.Lemma {
		return verifyLemma(prog, cs, uc, res)
	}
	fu := prog.Lookup(uc.PkgDir, uc.Func)
	if fu == nil {
		res.Errors = append(res.Errors, fmt.Sprintf("contract cannot bind: function %s not found in %s", uc.Func, uc.PkgDir))
		return res
	}
	res.Unit = fu
	if uc.Trusted {
		// assumed contract: the body is not verified (listed under assumptions wherever it is used)
		res.SrcRange = prog.srcRange(fu.Body) + " (trusted, body not verified)"
		return res
	}
	x := NewExec(prog, cs, fu, uc)
	res.Exec = x
	st := newState()
	x.bindEntryParams(st)
	// ghost variables with an initial value
	for _, gv := range uc.Ghosts {
		if gv.Init != nil {
			sp0 := &SpecCtx{bound: map[string]Value{}, macros: []map[string]*Macro{uc.Macros, cs.Global}, pkg: fu.Pkg.Types, scope: fu.Pkg.Types.Scope()}
			x.specDepth++
			v := x.eval(gv.Init, st, sp0)
			x.specDepth--
			x.writeLoc(st, x.ghostLoc(gv.Name), x.convertTo(v, ghostType(gv.Sort)))
		}
	}
	x.entry = st.clone()
	res.Entry = x.entry

	var stmts []ast.Stmt
	endPos := fu.Body.End() - 1
	if uc.Region == "" {
		stmts = fu.Body.List
		x.execLo, x.execHi = fu.Body.Pos(), fu.Body.End()
		res.SrcRange = prog.srcRange(fu.Body)
		res.Stmts = stmtCount(fu.Body)
	} else {
		var err error
		stmts, err = findRegion(x, fu, uc)
		if err != nil {
			res.Errors = append(res.Errors, fmt.Sprintf("contract cannot bind region %s: %v", uc.ID(), err))
			return res
		}
		x.execLo, x.execHi = stmts[0].Pos(), stmts[len(stmts)-1].End()
		a := prog.Fset.Position(stmts[0].Pos())
		b := prog.Fset.Position(stmts[len(stmts)-1].End())
		res.SrcRange = fmt.Sprintf("%s-%d", prog.pos(stmts[0].Pos()), b.Line)
		_ = a
		for _, s := range stmts {
			res.Stmts += stmtCount(s)
		}
		endPos = stmts[len(stmts)-1].End()
	}
	if len(uc.Uses) > 0 {
		res.Errors = append(res.Errors, x.resolveUses(fu)...)
	}
	startPos := stmts[0].Pos()
	if uc.Region == "" {
		startPos = fu.Body.Pos() + 1
	}
	// requires
	spIn := x.specCtxAt(startPos, nil)
	spIn.old = nil
	for _, r := range uc.Requires {
		if !on(r.Tags) {
			continue
		}
		rt := x.specBool(r, st, spIn)
		x.assume(st, rt, "requires:"+r.Name)
		x.propagateConstants(st, rt)
	}
	for _, c := range uc.Cases {
		x.caseTerms = append(x.caseTerms, x.specBool(c, st, spIn))
	}
	// the entry snapshot (old(), frame check) sees the propagated constants, too
	{
		pcSaved := st.pc
		x.entry = st.clone()
		x.entry.pc = pcSaved
		res.Entry = x.entry
	}
	// vacuity cover: the preconditions must be satisfiable
	if x.dry == 0 {
		ob := &Obligation{Name: uc.ID() + "/cover:requires", Unit: uc.ID(), Kind: "cover", PC: st.pc, Goal: False, NAss: len(x.assumptions), Text: "preconditions are satisfiable", Expect: "sat", exec: x}
		x.obligations = append(x.obligations, ob)
	}
	o := x.execBlock(stmts, st)

	// final states
	type fin struct {
		st   *State
		vals []Value
	}
	var fins []fin
	if o.Normal != nil && !o.Normal.pc.IsFalse() {
		fins = append(fins, fin{o.Normal, nil})
	}
	var exits []*State
	if uc.Region == "" {
		for _, r := range o.Rets {
			if !r.St.pc.IsFalse() {
				fins = append(fins, fin{r.St, r.Vals})
			}
		}
	} else {
		for _, r := range o.Rets {
			exits = append(exits, r.St)
		}
		for _, j := range o.Breaks {
			exits = append(exits, j.St)
		}
		for _, j := range o.Conts {
			exits = append(exits, j.St)
		}
	}
	if vacuityMode && uc.Region != "" && len(uc.Ensures) > 0 && len(uc.ExitEnsures) == 0 {
		nb, nr := 0, 0
		for _, j := range append(append([]Jump{}, o.Breaks...), o.Conts...) {
			if j.St != nil && !j.St.pc.IsFalse() {
				nb++
			}
		}
		for _, r := range o.Rets {
			if r.St != nil && !r.St.pc.IsFalse() {
				nr++
			}
		}
		if nb > 0 || (nr > 0 && len(uc.RetEnsures) == 0) {
			x.auditNotes = append(x.auditNotes, fmt.Sprintf("%s: %d break/continue and %d return paths leave the region without passing its ensures (no exit-ensures/return-ensures)", uc.ID(), nb, nr))
		}
	}
	// bind results
	nres := 0
	if fu.Sig != nil {
		nres = fu.Sig.Results().Len()
	}
	var final *State
	var finalVals []Value
	for i, f := range fins {
		vals := f.vals
		if uc.Region == "" && len(vals) == 0 && nres > 0 {
			// named results
			for _, fl := range fu.Type.Results.List {
				for _, n := range fl.Names {
					if obj, ok := fu.Pkg.TypesInfo.Defs[n].(*types.Var); ok {
						vals = append(vals, x.readLoc(f.st, x.varLoc(obj)))
					}
				}
			}
		}
		if i == 0 {
			final, finalVals = f.st, vals
			continue
		}
		pcA := final.pc
		nm := x.merge(final, f.st)
		nv := make([]Value, nres)
		for j := 0; j < nres; j++ {
			var a, b Value
			if j < len(finalVals) {
				a = finalVals[j]
			}
			if j < len(vals) {
				b = vals[j]
			}
			nv[j] = x.mergeValue(pcA, a, b, fu, j, nm)
		}
		final, finalVals = nm, nv
	}
	if final != nil {
		x.retBind = map[string]Value{}
		if uc.Region == "" {
			k := 0
			if fu.Type.Results != nil {
				for _, fl := range fu.Type.Results.List {
					cnt := len(fl.Names)
					if cnt == 0 {
						cnt = 1
					}
					for c := 0; c < cnt; c++ {
						if k < len(finalVals) {
							x.retBind[fmt.Sprintf("result%d", k)] = finalVals[k]
							if k == 0 {
								x.retBind["__result"] = finalVals[k]
							}
							if len(fl.Names) > 0 {
								x.retBind[fl.Names[c].Name] = finalVals[k]
							}
						}
						k++
					}
				}
			}
		}
		spOut := x.specCtxAt(endPos, nil)
		for _, en := range append(append([]*Clause{}, uc.Ensures...), uc.ExitEnsures...) {
			if !on(en.Tags) {
				continue
			}
			if en.Assumed {
				x.trustedUsed[fmt.Sprintf("%s/post:%s is assumed, not proved: %s", uc.ID(), en.Name, en.Text)] = true
				continue
			}
			x.assert(final, x.specBool(en, final, spOut), "post", fmt.Sprintf("%s/post:%s", uc.ID(), en.Name), en.Tags, token.NoPos, en.Text)
			x.coverAnte(en, final, spOut, "end")
		}
		// frame: everything written must be covered by a modifies clause
		if uc.HasMod {
			x.checkFrame(final, spIn, fu)
		}
	} else if len(uc.Ensures) > 0 && len(exits) == 0 {
		res.Errors = append(res.Errors, fmt.Sprintf("%s: no path reaches the end of the unit (all paths abort?)", uc.ID()))
	}
	if len(exits) > 0 && len(uc.ExitEnsures) > 0 {
		ex := x.mergeAll(exits)
		if ex != nil {
			spOut := x.specCtxAt(endPos, nil)
			for _, en := range uc.ExitEnsures {
				if !on(en.Tags) {
					continue
				}
				x.assert(ex, x.specBool(en, ex, spOut), "post-exit", fmt.Sprintf("%s/post-exit:%s", uc.ID(), en.Name), en.Tags, token.NoPos, en.Text)
				x.coverAnte(en, ex, spOut, "exit")
			}
		}
	}
	if uc.Region != "" && len(uc.RetEnsures) > 0 {
		// every return statement inside the region: clauses over the returned values (result0, result1, ...)
		for ri, r := range o.Rets {
			if r.St == nil || r.St.pc.IsFalse() {
				continue
			}
			x.retBind = map[string]Value{}
			for k, v := range r.Vals {
				x.retBind[fmt.Sprintf("result%d", k)] = v
				if k == 0 {
					x.retBind["__result"] = v
				}
			}
			spOut := x.specCtxAt(endPos, nil)
			for _, en := range uc.RetEnsures {
				if !on(en.Tags) {
					continue
				}
				x.assert(r.St, x.specBool(en, r.St, spOut), "post-return", fmt.Sprintf("%s/post-return:%s@%d", uc.ID(), en.Name, ri+1), en.Tags, token.NoPos, en.Text)
				x.coverAnte(en, r.St, spOut, fmt.Sprintf("return%d", ri+1))
			}
		}
		x.retBind = nil
	}
	for _, fc := range uc.FPChecks {
		if !on(fc.Tags) {
			continue
		}
		failure, bindErr := x.runFPCheck(fc, fu)
		if bindErr != "" {
			res.Errors = append(res.Errors, fmt.Sprintf("contract cannot bind: %s fp-exhaustive %s: %s", uc.ID(), fc.Name, bindErr))
			continue
		}
		f := failure
		goal := True
		if f != "" {
			goal = False
		}
		x.obligations = append(x.obligations, &Obligation{Name: fmt.Sprintf("%s/fp-exhaustive:%s", uc.ID(), fc.Name), Unit: uc.ID(), Kind: "fp-exhaustive", Tags: fc.Tags,
			PC: True, Goal: goal, NAss: 0, Text: fmt.Sprintf("for every %s in %d..%d, evaluated with float64 arithmetic on the real statements: %s", fc.Var, fc.Lo, fc.Hi, exprText(fc.Check)), exec: x, Concrete: &f})
	}
	if tags, ok := uc.Safety["noglobals"]; ok && on(tags) {
		// syntactic, transitive: the function leaves nothing behind in package-level variables
		touched := prog.GlobalTouch(fu)
		detail := ""
		for _, k := range sortedKeys(touched) {
			if detail != "" {
				detail += "; "
			}
			detail += k + " " + touched[k]
		}
		goal := True
		if detail != "" {
			goal = False
		}
		d := detail
		x.obligations = append(x.obligations, &Obligation{Name: uc.ID() + "/no-shared-state", Unit: uc.ID(), Kind: "no-shared-state", Tags: tags,
			PC: True, Goal: goal, NAss: 0, Text: "no package-level variable of the repository is mutated by this function or anything it (statically, transitively) calls" + map[bool]string{true: ": " + detail, false: ""}[detail != ""], exec: x, Concrete: &d})
	}
	for _, as := range uc.AtStmts {
		if as.Used == 0 {
			res.Errors = append(res.Errors, fmt.Sprintf("contract cannot bind: %s: no statement starts with %q", uc.ID(), as.Anchor))
		}
		as.Used = 0
	}
	res.Obligations = x.obligations
	res.Errors = append(res.Errors, x.errs...)
	return res
}

// propagateConstants: a precondition conjunct "entry-symbol == numeric literal" (g.DZ.Num == 10) is
// substituted into the entry state so that the arithmetic depending on it folds to constants.
func (x *Exec) propagateConstants(st *State, t *Term) {
	if t.Op == "and" {
		for _, a := range t.Args {
			x.propagateConstants(st, a)
		}
		return
	}
	if t.Op != "=" || len(t.Args) != 2 {
		return
	}
	a, b := t.Args[0], t.Args[1]
	if b.Op == "const" && a.IsNum() {
		a, b = b, a
	}
	if a.Op == "const" && strings.HasSuffix(a.Name, "#0") && b.IsNum() {
		key := strings.TrimSuffix(a.Name, "#0")
		if cur, ok := st.store[key]; ok && cur == a {
			lit := b
			if a.S.K == SReal {
				lit = ToReal(b)
			} else if a.S.K != b.S.K {
				return
			}
			st.store[key] = lit
		}
	}
}

func (x *Exec) checkFrame(final *State, sp *SpecCtx, fu *FuncUnit) {
	changed := map[string]bool{}
	x.diffKeys(x.entry, final, changed)
	var allowed []string
	for _, m := range x.uc.Modifies {
		me, err := parseSpecExpr(m)
		if err != nil {
			continue
		}
		x.specDepth++
		loc := x.lval(me, x.entry.clone(), sp)
		x.specDepth--
		if loc == nil || loc.Opaque {
			x.errorf("modifies clause %q cannot be resolved", m)
			continue
		}
		allowed = append(allowed, loc.Key)
	}
	// roots that belong to the caller: pointer parameters and package variables
	callerRoots := map[string]bool{}
	for k := range x.entry.ptrs {
		callerRoots[x.entry.ptrs[k].Key] = true
	}
	keys := make([]string, 0, len(changed))
	for k := range changed {
		keys = append(keys, k)
	}
	sort.Strings(keys)
	for _, k := range keys {
		root := rootOf(strings.TrimPrefix(k, "root:"))
		if !callerRoots[root] && !strings.Contains(root, "::") {
			continue
		}
		if strings.HasPrefix(root, "ghost::") {
			continue
		}
		ok := false
		for _, a := range allowed {
			if k == a || strings.HasPrefix(k, a+".") || strings.HasPrefix(k, a+"#") {
				ok = true
				break
			}
		}
		if !ok {
			x.assert(final, False, "frame", fmt.Sprintf("%s/frame:%s", x.uc.ID(), k), nil, token.NoPos, "location "+k+" is written but not listed in modifies")
		}
	}
}

func normWS(s string) string { return strings.Join(strings.Fields(s), " ") }

// findRegion locates the statement range [from..to] (matched by normalised source-text prefix) in one statement list.
func findRegion(x *Exec, fu *FuncUnit, uc *UnitContract) ([]ast.Stmt, error) {
	var found [][]ast.Stmt
	from, to := normWS(uc.From), normWS(uc.To)
	try := func(list []ast.Stmt) {
		if from == "$start" || from == "$liststart" {
			// from the first statement of the function body ($start) / of the statement list that holds the `to`
			// anchor ($liststart) up to that anchor
			if len(list) == 0 || len(fu.Body.List) == 0 || (from == "$start" && list[0] != fu.Body.List[0]) {
				return
			}
			for j := 0; j < len(list); j++ {
				if x.anchorMatches(list[j], to) {
					hi := j + 1
					if uc.ToExcl {
						hi = j
					}
					if hi > 0 {
						found = append(found, list[0:hi])
					}
					break
				}
			}
			return
		}
		for i, s := range list {
			if uc.FromExcl || uc.ToExcl {
				// exclusive anchors: the region's own first/last statements may be reordered, renamed or rewritten
				// without unbinding the contract
				if x.anchorMatches(s, from) {
					lo := i
					if uc.FromExcl {
						lo = i + 1
					}
					for j := lo; j < len(list); j++ {
						if to == "$end" || x.anchorMatches(list[j], to) {
							hi := j + 1
							if to == "$end" {
								hi = len(list)
							} else if uc.ToExcl {
								hi = j
							}
							if hi > lo {
								if !uc.FromExcl {
									lo = x.extendBack(list, lo, hi-1)
								}
								found = append(found, list[lo:hi])
							}
							break
						}
					}
				}
				continue
			}
			if to == "$end" && x.anchorMatches(s, from) {
				// up to the end of the enclosing statement list, whatever its last statement is
				found = append(found, list[x.extendBack(list, i, len(list)-1):])
				continue
			}
			if x.anchorMatches(s, from) {
				for j := i; j < len(list); j++ {
					if x.anchorMatches(list[j], to) {
						found = append(found, list[x.extendBack(list, i, j):j+1])
						break
					}
				}
			}
		}
	}
	var root ast.Node = fu.Body
	if uc.Within != "" {
		var outer []ast.Stmt
		w := normWS(uc.Within)
		ast.Inspect(fu.Body, func(n ast.Node) bool {
			if fl, ok := n.(*ast.FuncLit); ok && fl.Body != fu.Body {
				return false
			}
			if s, ok := n.(ast.Stmt); ok && x.anchorMatches(s, w) {
				outer = append(outer, s)
				return false
			}
			return true
		})
		if len(outer) != 1 {
			return nil, fmt.Errorf("within-anchor %q matches %d statements in %s", uc.Within, len(outer), fu.Name)
		}
		root = outer[0]
	}
	ast.Inspect(root, func(n ast.Node) bool {
		switch b := n.(type) {
		case *ast.FuncLit:
			if b.Body != fu.Body {
				return false
			}
		case *ast.BlockStmt:
			try(b.List)
		case *ast.CaseClause:
			try(b.Body)
		case *ast.CommClause:
			try(b.Body)
		}
		return true
	})
	if len(found) == 0 {
		return nil, fmt.Errorf("anchors %q … %q not found in %s", from, to, fu.Name)
	}
	if len(found) > 1 {
		return nil, fmt.Errorf("anchors %q … %q match %d places in %s", from, to, len(found), fu.Name)
	}
	return found[0], nil
}

func verifyLemma(prog *Program, cs *ContractSet, uc *UnitContract, res *UnitResult) *UnitResult {
	// a lemma is pure: variables, assumptions, goals; it needs some package for scope only
	var anyUnit *FuncUnit
	for _, m := range prog.Funcs[uc.PkgDir] {
		anyUnit = m
		break
	}
	if anyUnit == nil {
		res.Errors = append(res.Errors, "lemma "+uc.Func+": package "+uc.PkgDir+" not loaded")
		return res
	}
	x := NewExec(prog, cs, anyUnit, uc)
	x.loopOrd = map[ast.Stmt]int{}
	res.Exec = x
	st := newState()
	x.entry = st.clone()
	sp := &SpecCtx{bound: map[string]Value{}, macros: []map[string]*Macro{uc.Macros, cs.Global}, pkg: anyUnit.Pkg.Types, scope: nil, old: x.entry}
	for _, r := range uc.Requires {
		if !on(r.Tags) {
			continue
		}
		x.assume(st, x.specBool(r, st, sp), "assume:"+r.Name)
	}
	ob := &Obligation{Name: uc.ID() + "/cover:assumptions", Unit: uc.ID(), Kind: "cover", PC: st.pc, Goal: False, NAss: len(x.assumptions), Text: "lemma hypotheses are satisfiable", Expect: "sat", exec: x}
	x.obligations = append(x.obligations, ob)
	for _, en := range uc.Ensures {
		if !on(en.Tags) {
			continue
		}
		x.assert(st, x.specBool(en, st, sp), "lemma", fmt.Sprintf("%s/lemma:%s", uc.ID(), en.Name), en.Tags, token.NoPos, en.Text)
	}
	res.Obligations = x.obligations
	res.Errors = append(res.Errors, x.errs...)
	res.SrcRange = "(pure lemma over contracts and spec functions)"
	return res
}

// extendBack: a region is extended backwards over the statements that IMMEDIATELY precede it in the same statement list
// and only introduce a local by a side-effect-free expression (`yearIdx := yrz - 1`) that the region uses. Those are real
// statements executed in their real order; including them keeps a region provable after a "name this sub-expression"
// clean-up that puts the new local in front of the anchored statement.
func (x *Exec) extendBack(list []ast.Stmt, i, j int) int {
	used := map[string]bool{}
	for _, s := range list[i : j+1] {
		ast.Inspect(s, func(n ast.Node) bool {
			if id, ok := n.(*ast.Ident); ok {
				used[id.Name] = true
			}
			return true
		})
	}
	pure := func(e ast.Expr) bool {
		ok := true
		ast.Inspect(e, func(n ast.Node) bool {
			switch c := n.(type) {
			case *ast.CallExpr:
				switch f := c.Fun.(type) {
				case *ast.Ident:
					switch f.Name {
					case "float64", "int", "int64", "uint64", "len", "min", "max":
					default:
						ok = false
					}
				case *ast.SelectorExpr:
					if id, isId := f.X.(*ast.Ident); !isId || id.Name != "math" {
						ok = false
					}
				default:
					ok = false
				}
			case *ast.UnaryExpr:
				if c.Op == token.ARROW || c.Op == token.AND {
					ok = false
				}
			case *ast.FuncLit:
				ok = false
			}
			return ok
		})
		return ok
	}
	k := i
	for k > 0 {
		as, isAssign := list[k-1].(*ast.AssignStmt)
		if !isAssign || as.Tok != token.DEFINE || len(as.Lhs) != len(as.Rhs) {
			break
		}
		needed := false
		allPure := true
		for idx, l := range as.Lhs {
			id, isId := l.(*ast.Ident)
			if !isId {
				allPure = false
				break
			}
			if used[id.Name] {
				needed = true
			}
			if !pure(as.Rhs[idx]) {
				allPure = false
			}
		}
		if !needed || !allPure {
			break
		}
		ast.Inspect(as, func(n ast.Node) bool {
			if id, ok := n.(*ast.Ident); ok {
				used[id.Name] = true
			}
			return true
		})
		k--
	}
	if k < i {
		x.abstract(fmt.Sprintf("region extended backwards over %d preceding definition(s) of locals it uses", i-k))
	}
	return k
}

// ---------- vacuity audit ----------

// vacuityMode: for every postcondition of the form A ==> B an extra cover obligation "A is reachable where the clause
// is checked" is generated (hvc vacuity). A clause whose antecedent is unreachable at every point it is checked at is
// proved vacuously: it would keep verifying after the behaviour it should pin down has changed.
var vacuityMode bool

func (x *Exec) coverAnte(c *Clause, st *State, sp *SpecCtx, point string) {
	x.coverAnteWith(x.uc.ID(), c, st, point, func(tmp *Clause) *Term { return x.specBool(tmp, st, sp) })
}

func (x *Exec) coverAnteWith(owner string, c *Clause, st *State, point string, evalC func(*Clause) *Term) {
	if !vacuityMode || st == nil || st.pc.IsFalse() {
		return
	}
	call, ok := c.Expr.(*ast.CallExpr)
	if !ok {
		return
	}
	id, ok := call.Fun.(*ast.Ident)
	if !ok || id.Name != "implies" || len(call.Args) != 2 {
		return
	}
	tmp := &Clause{Kind: c.Kind, Name: c.Name, Text: c.Text, Expr: call.Args[0], File: c.File, Line: c.Line, Tags: c.Tags}
	a := evalC(tmp)
	x.anteCovers = append(x.anteCovers, &Obligation{Name: fmt.Sprintf("%s/vacuity:%s@%s", owner, c.Name, point), Unit: x.uc.ID(), Kind: "cover",
		PC: And(st.pc, a), Goal: False, NAss: len(x.assumptions), Text: "antecedent of " + c.Name + " is reachable: " + c.Text, Expect: "sat", exec: x, Tags: c.Tags})
}

type vacuityReport struct {
	Audited        int      `json:"implication_clauses_audited"`
	Vacuous        []string `json:"vacuous"`
	Undecided      []string `json:"antecedent_reachability_undecided"`
	UncheckedExits []string `json:"regions_with_exits_not_under_contract,omitempty"`
}

func vacuityAudit(prog *Program, cs *ContractSet, filter []string, timeout int) vacuityReport {
	saveMode, saveProp := vacuityMode, activeProp
	vacuityMode, activeProp = true, ""
	defer func() { vacuityMode, activeProp = saveMode, saveProp }()
	var obs []*Obligation
	var notes []string
	for _, uc := range cs.Units {
		if uc.Lemma || uc.Trusted {
			continue
		}
		if len(filter) > 0 {
			hit := false
			for _, a := range filter {
				if uc.Tags[a] || strings.Contains(uc.ID(), a) {
					hit = true
				}
			}
			if !hit {
				continue
			}
		}
		if prog.Funcs[uc.PkgDir] == nil {
			continue
		}
		res := VerifyUnit(prog, cs, uc)
		if res.Exec != nil {
			obs = append(obs, res.Exec.anteCovers...)
			notes = append(notes, res.Exec.auditNotes...)
		}
	}
	rs := discharge(obs, timeout, false)
	type agg struct{ sat, unsat, other int }
	groups := map[string]*agg{}
	var order []string
	for _, r := range rs {
		k := r.Ob.Name[:strings.LastIndex(r.Ob.Name, "@")]
		g := groups[k]
		if g == nil {
			g = &agg{}
			groups[k] = g
			order = append(order, k)
		}
		switch r.Res.Status {
		case "sat":
			g.sat++
		case "unsat":
			g.unsat++
		default:
			g.other++
		}
	}
	rep := vacuityReport{Audited: len(order), Vacuous: []string{}, Undecided: []string{}, UncheckedExits: notes}
	for _, k := range order {
		g := groups[k]
		switch {
		case g.sat > 0:
		case g.other > 0:
			rep.Undecided = append(rep.Undecided, k)
		default:
			rep.Vacuous = append(rep.Vacuous, k)
		}
	}
	return rep
}

func cmdVacuity(args []string) int {
	fs := flag.NewFlagSet("vacuity", flag.ExitOnError)
	timeout := fs.Int("t", 10, "timeout per query (s)")
	fs.Parse(args)
	prog, cs, err := loadAll(nil)
	if err != nil {
		fmt.Fprintln(os.Stderr, "error:", err)
		return 2
	}
	rep := vacuityAudit(prog, cs, fs.Args(), *timeout)
	for _, k := range rep.Undecided {
		fmt.Printf("UNDECIDED %s (antecedent reachability not decided in %ds)\n", k, *timeout)
	}
	for _, k := range rep.UncheckedExits {
		fmt.Println("NOTE     ", k)
	}
	for _, k := range rep.Vacuous {
		fmt.Printf("VACUOUS   %s (antecedent unreachable at every point the clause is checked at)\n", k)
	}
	fmt.Printf("%d implication clauses audited, %d vacuous, %d undecided\n", rep.Audited, len(rep.Vacuous), len(rep.Undecided))
	if len(rep.Vacuous) > 0 {
		return 1
	}
	return 0
}
