package main

// Replay of a counterexample for a REGION unit: the region's statements are copied verbatim (by source offsets, nothing
// is re-typed) into a closure of a generated in-package test; every variable of the enclosing function the region or
// its contract mentions becomes a variable of the test, set from the solver's model of the region's entry state; ghost
// updates and intermediate assertions of the contract are inserted at their anchors; the contract clauses are
// evaluated after the last statement. What this drops: callees run on a state that holds only what the model
// determines (everything else is zero), so a panic or an early exit makes the replay inconclusive.

import (
	"fmt"
	"go/ast"
	"go/token"
	"go/types"
	"regexp"
	"sort"
	"strings"
)

type regionIns struct {
	off  int
	seq  int
	text string
}

func tryReplayRegion(prog *Program, cs *ContractSet, prop string, r ObResult, rep *Replay) {
	ob := r.Ob
	x := ob.exec
	uc := x.uc
	fu := x.unit
	entry := x.entry
	if entry == nil {
		return
	}
	stmts, err := findRegion(x, fu, uc)
	if err != nil {
		rep.ReplayLog = "no replay: " + err.Error()
		return
	}
	startPos, endPos := stmts[0].Pos(), stmts[len(stmts)-1].End()
	info := fu.Pkg.TypesInfo
	pkg := fu.Pkg.Types
	usedPkgs := map[string]string{} // import name -> path
	qual := func(p *types.Package) string {
		if p == pkg {
			return ""
		}
		usedPkgs[p.Name()] = p.Path()
		return p.Name()
	}
	tstr := func(t types.Type) string { return types.TypeString(t, qual) }

	// ---- free variables of the region (and of its contract clauses) ----
	free := map[string]*types.Var{}
	var order []string
	conflict := ""
	addFree := func(obj *types.Var) {
		if obj == nil || obj.IsField() || obj.Pkg() != pkg {
			return
		}
		if obj.Parent() == pkg.Scope() || obj.Parent() == types.Universe {
			return
		}
		if obj.Pos() >= startPos && obj.Pos() < endPos {
			return
		}
		if o, ok := free[obj.Name()]; ok {
			if o != obj {
				conflict = obj.Name()
			}
			return
		}
		free[obj.Name()] = obj
		order = append(order, obj.Name())
	}
	for _, s := range stmts {
		ast.Inspect(s, func(n ast.Node) bool {
			switch n := n.(type) {
			case *ast.Ident:
				if obj, ok := info.Uses[n].(*types.Var); ok {
					addFree(obj)
				}
			case *ast.SelectorExpr:
				if id, ok := n.X.(*ast.Ident); ok {
					if pn, ok := info.Uses[id].(*types.PkgName); ok {
						usedPkgs[pn.Name()] = pn.Imported().Path()
					}
				}
			}
			return true
		})
	}
	// identifiers of the contract clauses, resolved in the scope at the end of the region
	sc := pkg.Scope().Innermost(endPos - 1)
	var clauseExprs []ast.Expr
	for _, c := range uc.Requires {
		clauseExprs = append(clauseExprs, c.Expr)
	}
	for _, c := range uc.Ensures {
		clauseExprs = append(clauseExprs, c.Expr)
	}
	for _, as := range uc.AtStmts {
		if as.RHS != nil {
			clauseExprs = append(clauseExprs, as.RHS)
		}
		if as.Assert != nil {
			clauseExprs = append(clauseExprs, as.Assert.Expr)
		}
	}
	for _, ac := range uc.AtCalls {
		clauseExprs = append(clauseExprs, ac.RHS)
	}
	for _, m := range uc.Macros {
		if m != nil && m.Body != nil {
			clauseExprs = append(clauseExprs, m.Body)
		}
	}
	ghostNames := map[string]bool{}
	for _, gv := range uc.Ghosts {
		ghostNames[gv.Name] = true
	}
	if sc != nil {
		for _, e := range clauseExprs {
			ast.Inspect(e, func(n ast.Node) bool {
				if id, ok := n.(*ast.Ident); ok && !ghostNames[id.Name] {
					if _, obj := sc.LookupParent(id.Name, endPos-1); obj != nil {
						if v, ok := obj.(*types.Var); ok {
							addFree(v)
						}
					}
				}
				return true
			})
		}
	}
	if conflict != "" {
		rep.ReplayLog = "no replay: two different variables named " + conflict + " are visible to the region"
		return
	}
	sort.Strings(order)

	// ---- declarations ----
	ptrPars := map[string]bool{}
	valPars := map[string]bool{}
	rootOfVar := map[string]string{} // engine root key -> Go name
	var setup strings.Builder
	for _, name := range order {
		obj := free[name]
		t := obj.Type()
		if key, ok := x.varNames[obj]; ok {
			rootOfVar[key] = name
		} else {
			rootOfVar[name] = name
		}
		if pt, ok := t.Underlying().(*types.Pointer); ok {
			if _, isStruct := pt.Elem().Underlying().(*types.Struct); isStruct {
				fmt.Fprintf(&setup, "\t%s := new(%s)\n\t_ = %s\n", name, tstr(pt.Elem()), name)
				ptrPars[name] = true
				continue
			}
		}
		fmt.Fprintf(&setup, "\tvar %s %s\n\t_ = %s\n", name, tstr(t), name)
		ptrPars[name] = true // addressed by its own name (no p_ prefix); old_ copy made below when possible
	}

	// ---- ghosts ----
	ghostIn := map[string]bool{}
	unsupportedGhost := map[string]string{}
	for _, gv := range uc.Ghosts {
		if strings.HasPrefix(gv.Sort, "[]") {
			unsupportedGhost[gv.Name] = "array-valued ghost"
			continue
		}
		ghostIn[gv.Name] = true
	}

	// ---- entry leaves ----
	keys := map[string]bool{}
	for k := range entry.store {
		keys[k] = true
	}
	for n := range x.initSyms {
		if strings.HasSuffix(n, "#0") {
			keys[strings.TrimSuffix(n, "#0")] = true
		}
	}
	var klist []string
	for k := range keys {
		klist = append(klist, k)
	}
	sort.Strings(klist)
	var leaves []entryLeaf
	var lenLeaves []entryLeaf
	var skipped []string
	ghostDecl := map[string]bool{}
	for _, k := range klist {
		if strings.HasPrefix(k, "ghost::") {
			name := strings.TrimPrefix(k, "ghost::")
			if !ghostIn[name] {
				continue
			}
			term, ok := entry.store[k]
			if !ok {
				term = x.initSyms[k+"#0"]
			}
			if term != nil && (term.S.K == SInt || term.S.K == SReal || term.S.K == SBool) {
				if term.Op == "const" || term.IsNum() || term.Op == "lit" {
					leaves = append(leaves, entryLeaf{"gh_" + name, term, term.S.K})
				}
				fmt.Fprintf(&setup, "\tvar gh_%s %s\n\t_ = gh_%s\n", name, goTypeOfKind(term.S.K), name)
				ghostDecl[name] = true
			}
			continue
		}
		if strings.ContainsAny(k, "!>:") || strings.HasSuffix(k, "#ptrset") || strings.HasSuffix(k, "#fnset") || strings.Contains(k, ".$") {
			continue
		}
		base := k
		isLen := false
		if strings.HasSuffix(k, "#len") {
			base = strings.TrimSuffix(k, "#len")
			isLen = true
		} else if strings.Contains(k, "#") {
			skipped = append(skipped, k)
			continue
		}
		root := rootOf(base)
		gname, ok := rootOfVar[root]
		if !ok {
			continue
		}
		lval := gname + base[len(root):]
		term, ok := entry.store[k]
		if !ok {
			term = x.initSyms[k+"#0"]
		}
		if term == nil {
			continue
		}
		if isLen {
			lenLeaves = append(lenLeaves, entryLeaf{lval, term, SInt})
			continue
		}
		t := x.keyTypes[k]
		if t == nil || !term.S.Eq(sortOf(t)) {
			skipped = append(skipped, k)
			continue
		}
		n0 := len(leaves)
		if !leavesOf(lval, t, term, &leaves, nil, k) {
			leaves = leaves[:n0]
			skipped = append(skipped, k)
		}
	}
	for _, gv := range uc.Ghosts {
		if ghostIn[gv.Name] && !ghostDecl[gv.Name] {
			fmt.Fprintf(&setup, "\tvar gh_%s %s\n\t_ = gh_%s\n", gv.Name, goTypeOfKind(sortOf(ghostType(gv.Sort)).K), gv.Name)
			ghostDecl[gv.Name] = true
		}
	}
	if len(leaves) > maxLeaves {
		rep.ReplayLog = "no replay: entry state too large"
		return
	}
	// ---- model ----
	var gv []*Term
	for _, l := range leaves {
		gv = append(gv, l.term)
	}
	for _, l := range lenLeaves {
		gv = append(gv, l.term)
	}
	var model map[string]string
	lastRaw := ""
	cases := [][]*Term{nil}
	for _, max := range []int{6, 16, 40} {
		cases = append(cases, ob.SplitPC(max)...)
	}
	candidate := r.Res.Status == "timeout" || r.Res.Status == "unknown"
	if candidate {
		cases = nil
		for _, radius := range []int{2, 4, 8} {
			res := Solve(ob.ScriptCandidate(radius, nil, gv), 15, false)
			if res.Status == "sat" && (len(res.Model) > 0 || len(gv) == 0) {
				model = res.Model
				if model == nil {
					model = map[string]string{}
				}
				break
			}
			lastRaw = res.Status
		}
	}
	for ci, cse := range cases {
		if ci > 30 {
			break
		}
		res := Solve(ob.ScriptWith(cse, gv), 20, false)
		if res.Status == "sat" && (len(res.Model) > 0 || len(gv) == 0) {
			model = res.Model
			if model == nil {
				model = map[string]string{}
			}
			break
		}
		lastRaw = res.Status + ": " + clip(res.Raw, 300)
	}
	if model == nil {
		rep.ReplayLog = "no replay: no solver returned values for the entry state of the region (" + lastRaw + ")"
		return
	}
	rep.Model = map[string]string{}
	var assign strings.Builder
	sliceLens := map[string]int{}
	for _, l := range lenLeaves {
		if v, ok := model[termString(l.term)]; ok {
			if lit, ok := goLiteral(v, SInt); ok {
				var n int
				fmt.Sscan(lit, &n)
				if n < 0 {
					n = 0
				}
				if n > maxSliceReplay {
					rep.ReplayLog = fmt.Sprintf("no replay: the model needs a slice of length %d for %s (cap %d)", n, l.goLval, maxSliceReplay)
					return
				}
				sliceLens[l.goLval] = n
				rep.Model["len("+l.goLval+")"] = lit
			}
		}
	}
	madeSlices := map[string]bool{}
	reIdx := regexp.MustCompile(`^(.*)\[(\d+)\]$`)
	for _, l := range leaves {
		v, ok := model[termString(l.term)]
		if !ok {
			continue
		}
		lit, ok := goLiteral(v, l.kind)
		if !ok {
			rep.ReplayLog = "no replay: model value of " + l.goLval + " is not a rational number: " + clip(v, 80)
			return
		}
		if m := reIdx.FindStringSubmatch(l.goLval); m != nil {
			if n, isSlice := sliceLens[m[1]]; isSlice {
				var idx int
				fmt.Sscan(m[2], &idx)
				if idx >= n {
					continue
				}
				if !madeSlices[m[1]] {
					madeSlices[m[1]] = true
					et := "float64"
					for key, gname := range rootOfVar {
						if strings.HasPrefix(m[1], gname) {
							if t, ok := x.keyTypes[key+m[1][len(gname):]]; ok {
								if s, ok := t.Underlying().(*types.Slice); ok {
									et = tstr(s.Elem())
								}
							}
						}
					}
					fmt.Fprintf(&assign, "\t%s = make([]%s, %d)\n", m[1], et, n)
				}
			} else if strings.Count(m[1], "[") == 0 {
				// element of a slice whose length the model does not mention: leave
				if t := typeOfLval(x, rootOfVar, m[1]); t != nil {
					if _, isSlice := t.Underlying().(*types.Slice); isSlice {
						continue
					}
				}
			}
		}
		if lit == "0" || lit == "false" {
			continue
		}
		rep.Model[l.goLval] = lit
		fmt.Fprintf(&assign, "\t%s = %s\n", l.goLval, lit)
	}
	// ---- old copies ----
	var olds strings.Builder
	for _, name := range order {
		obj := free[name]
		switch u := obj.Type().Underlying().(type) {
		case *types.Pointer:
			if _, isStruct := u.Elem().Underlying().(*types.Struct); isStruct {
				fmt.Fprintf(&olds, "\told_%s := new(%s)\n\t*old_%s = *%s\n\t_ = old_%s\n", name, tstr(u.Elem()), name, name, name)
				continue
			}
			fmt.Fprintf(&olds, "\told_%s := %s\n\t_ = old_%s\n", name, name, name)
		default:
			fmt.Fprintf(&olds, "\told_%s := %s\n\t_ = old_%s\n", name, name, name)
		}
	}
	for _, gvv := range uc.Ghosts {
		if ghostDecl[gvv.Name] {
			fmt.Fprintf(&olds, "\told_gh_%s := gh_%s\n\t_ = old_gh_%s\n", gvv.Name, gvv.Name, gvv.Name)
		}
	}

	// ---- compile helper ----
	allGhosts := map[string]bool{}
	for n := range ghostDecl {
		allGhosts[n] = true
	}
	mkCtx := func(pos token.Pos) *goCtx {
		sp := x.specCtxAt(pos, nil)
		return &goCtx{x: x, sp: sp, st: entry, bound: map[string]string{}, bkind: map[string]SortKind{}, ptrPars: ptrPars, valPars: valPars,
			results: map[string]string{}, ghosts: allGhosts, region: true}
	}
	var notes []string
	// ---- instrumentation: ghost updates and intermediate assertions at their anchors ----
	data := x.fileData(prog.Fset.Position(startPos).Filename)
	off := func(p token.Pos) int { return prog.Fset.Position(p).Offset }
	var ins []regionIns
	seq := 0
	addIns := func(o int, text string) {
		seq++
		ins = append(ins, regionIns{o, seq, text})
	}
	listStmts := map[ast.Stmt]bool{}
	var parents []ast.Node
	callStmt := map[*ast.CallExpr]ast.Stmt{}
	for _, s := range stmts {
		listStmts[s] = true
		ast.Inspect(s, func(n ast.Node) bool {
			if n == nil {
				parents = parents[:len(parents)-1]
				return true
			}
			switch b := n.(type) {
			case *ast.BlockStmt:
				for _, t := range b.List {
					listStmts[t] = true
				}
			case *ast.CaseClause:
				for _, t := range b.Body {
					listStmts[t] = true
				}
			case *ast.CallExpr:
				// innermost enclosing list statement
				for i := len(parents) - 1; i >= 0; i-- {
					if st, ok := parents[i].(ast.Stmt); ok && listStmts[st] {
						callStmt[b] = st
						break
					}
				}
			}
			parents = append(parents, n)
			return true
		})
	}
	for _, as := range uc.AtStmts {
		matched := false
		for st := range listStmts {
			if !x.anchorMatches(st, as.Anchor) {
				continue
			}
			if _, isBlock := st.(*ast.BlockStmt); isBlock {
				continue
			}
			matched = true
			pos := st.End()
			if as.Before {
				pos = st.Pos()
			}
			c := mkCtx(pos)
			if as.Assert != nil {
				if as.Assert.Kind != "assert" {
					continue
				}
				code := c.boolExpr(as.Assert.Expr)
				if c.fail != "" {
					notes = append(notes, "assert "+as.Assert.Name+" not evaluated: "+c.fail)
					continue
				}
				addIns(off(pos), fmt.Sprintf("\nhvcEval(%q, func() bool { return %s })\n", "assert:"+as.Assert.Name, code))
				continue
			}
			if !ghostDecl[as.LHS] {
				continue
			}
			code, k := c.expr(as.RHS)
			if c.fail != "" {
				unsupportedGhost[as.LHS] = c.fail
				continue
			}
			gk := sortOf(ghostType(ghostSortOf(uc, as.LHS))).K
			addIns(off(pos), fmt.Sprintf("\ngh_%s = %s\n", as.LHS, conv(code, k, gk)))
		}
		if !matched && as.LHS != "" {
			unsupportedGhost[as.LHS] = "anchor not inside the region"
		}
	}
	for _, ac := range uc.AtCalls {
		if !ghostDecl[ac.LHS] {
			continue
		}
		for ce, st := range callStmt {
			if x.calleeText(ce) != ac.Callee || (ac.Ordinal != 0 && ac.Ordinal != x.callOrd[ce]) {
				continue
			}
			c := mkCtx(st.End())
			okStmt := false
			switch s := st.(type) {
			case *ast.ExprStmt:
				okStmt = s.X == ce
			case *ast.AssignStmt:
				if len(s.Rhs) == 1 && s.Rhs[0] == ce {
					okStmt = true
					for i, l := range s.Lhs {
						if id, ok := l.(*ast.Ident); ok && id.Name == "_" {
							continue
						}
						src := x.src(l)
						k := SU
						if v := x.evalKind(l, entry); v != SU {
							k = v
						}
						c.bound[fmt.Sprintf("res%d", i)] = c.wrapLeaf(src, k)
						c.bkind[fmt.Sprintf("res%d", i)] = k
					}
				}
			}
			if !okStmt {
				unsupportedGhost[ac.LHS] = "updated at a call that is not a statement of its own"
				continue
			}
			for i, a := range ce.Args {
				k := x.evalKind(a, entry)
				if k == SInt || k == SReal || k == SBool || k == SStr {
					c.bound[fmt.Sprintf("arg%d", i)] = c.wrapLeaf("("+x.src(a)+")", k)
					c.bkind[fmt.Sprintf("arg%d", i)] = k
				}
			}
			code, k := c.expr(ac.RHS)
			if c.fail != "" {
				unsupportedGhost[ac.LHS] = c.fail
				continue
			}
			gk := sortOf(ghostType(ghostSortOf(uc, ac.LHS))).K
			addIns(off(st.End()), fmt.Sprintf("\ngh_%s = %s\n", ac.LHS, conv(code, k, gk)))
		}
	}
	// ghost initial values given by the contract
	var ghostInit strings.Builder
	for _, gvv := range uc.Ghosts {
		if gvv.Init != nil && ghostDecl[gvv.Name] {
			c := mkCtx(startPos)
			code, k := c.expr(gvv.Init)
			if c.fail == "" {
				fmt.Fprintf(&ghostInit, "\tgh_%s = %s\n", gvv.Name, conv(code, k, sortOf(ghostType(gvv.Sort)).K))
			}
		}
	}
	// ---- clauses ----
	var pre, post strings.Builder
	usesBad := func(e ast.Expr) string {
		bad := ""
		ast.Inspect(e, func(n ast.Node) bool {
			if id, ok := n.(*ast.Ident); ok {
				if why, isBad := unsupportedGhost[id.Name]; isBad {
					bad = "ghost " + id.Name + ": " + why
				}
			}
			return bad == ""
		})
		return bad
	}
	for _, rq := range uc.Requires {
		if bad := usesBad(rq.Expr); bad != "" {
			notes = append(notes, "requires "+rq.Name+" not evaluated: "+bad)
			continue
		}
		c := mkCtx(startPos)
		c.sp.old = nil
		code := c.boolExpr(rq.Expr)
		if c.fail != "" {
			notes = append(notes, "requires "+rq.Name+" not evaluated: "+c.fail)
			continue
		}
		fmt.Fprintf(&pre, "\thvcEval(%q, func() bool { return %s })\n", "requires:"+rq.Name, code)
	}
	evaluated := 0
	q := prop
	if uc.As[prop] != "" {
		q = uc.As[prop]
	}
	for _, en := range uc.Ensures {
		if en.Assumed || !hasTag(en.Tags, q) {
			continue
		}
		if bad := usesBad(en.Expr); bad != "" {
			notes = append(notes, "ensures "+en.Name+" not evaluated: "+bad)
			continue
		}
		c := mkCtx(endPos)
		code := c.boolExpr(en.Expr)
		if c.fail != "" {
			notes = append(notes, "ensures "+en.Name+" not evaluated: "+c.fail)
			continue
		}
		evaluated++
		fmt.Fprintf(&post, "\t\t\thvcEval(%q, func() bool { return %s })\n", "ensures:"+en.Name, code)
	}
	if evaluated == 0 && len(ins) == 0 {
		rep.ReplayLog = "no replay: no clause of the region can be evaluated on concrete values (" + strings.Join(notes, "; ") + ")"
		return
	}
	// ---- region text with insertions ----
	a, b := off(startPos), off(endPos)
	if data == nil || b > len(data) || a >= b {
		rep.ReplayLog = "no replay: source of the region not available"
		return
	}
	sort.Slice(ins, func(i, j int) bool {
		if ins[i].off != ins[j].off {
			return ins[i].off > ins[j].off
		}
		return ins[i].seq > ins[j].seq
	})
	text := string(data[a:b])
	for _, in := range ins {
		if in.off < a || in.off > b {
			continue
		}
		p := in.off - a
		text = text[:p] + in.text + text[p:]
	}
	// variables defined at the top level of the region must count as used
	var useDefs strings.Builder
	for _, s := range stmts {
		switch s := s.(type) {
		case *ast.AssignStmt:
			if s.Tok == token.DEFINE {
				for _, l := range s.Lhs {
					if id, ok := l.(*ast.Ident); ok && id.Name != "_" {
						fmt.Fprintf(&useDefs, "\t\t\t_ = %s\n", id.Name)
					}
				}
			}
		case *ast.DeclStmt:
			if gd, ok := s.Decl.(*ast.GenDecl); ok && gd.Tok == token.VAR {
				for _, sp := range gd.Specs {
					for _, n := range sp.(*ast.ValueSpec).Names {
						fmt.Fprintf(&useDefs, "\t\t\t_ = %s\n", n.Name)
					}
				}
			}
		}
	}
	// ---- result signature of the enclosing function ----
	resSig := ""
	if fu.Sig != nil && fu.Sig.Results().Len() > 0 {
		var rs []string
		for i := 0; i < fu.Sig.Results().Len(); i++ {
			rs = append(rs, fmt.Sprintf("hvcR%d %s", i, tstr(fu.Sig.Results().At(i).Type())))
		}
		resSig = "(" + strings.Join(rs, ", ") + ")"
	}
	// ---- the test file ----
	var imports []string
	std := map[string]bool{"fmt": true, "math": true, "reflect": true, "testing": true}
	for name, path := range usedPkgs {
		if std[name] && path == name {
			continue
		}
		if name == path[strings.LastIndex(path, "/")+1:] {
			imports = append(imports, fmt.Sprintf("\t%q", path))
		} else {
			imports = append(imports, fmt.Sprintf("\t%s %q", name, path))
		}
	}
	sort.Strings(imports)
	var src strings.Builder
	fmt.Fprintf(&src, "package %s\n\nimport (\n\t\"fmt\"\n\t\"math\"\n\t\"reflect\"\n\t\"testing\"\n%s\n)\n\nvar _ = math.Abs\nvar _ = reflect.DeepEqual\n%s\n", pkg.Name(), strings.Join(imports, "\n"), replayHelpers)
	fmt.Fprintf(&src, "func TestHvcReplay(t *testing.T) {\n%s%s%s%s%s", setup.String(), assign.String(), ghostInit.String(), olds.String(), pre.String())
	fmt.Fprintf(&src, "\trun := func() %s {\n\t\tfor hvcOnce := true; hvcOnce; hvcOnce = false {\n// ---- region %s, statements copied verbatim from %s ----\n%s\n// ---- end of region ----\n%s\t\t\tfmt.Println(\"HVC-REPLAY call=returned\")\n%s\t\t}\n\t\treturn\n\t}\n", resSig, uc.ID(), prog.pos(startPos), text, useDefs.String(), post.String())
	src.WriteString("\tfunc() {\n\t\tdefer func() {\n\t\t\tif r := recover(); r != nil {\n\t\t\t\tfmt.Printf(\"HVC-REPLAY call=panic %v\\n\", r)\n\t\t\t}\n\t\t}()\n\t\trun()\n\t}()\n}\n")

	rep.TestSource = src.String()
	rep.PkgDir = uc.PkgDir
	out := runReplayTest(rep.PkgDir, rep.TestSource)
	var lines []string
	violated, preBroken, panicked, completed := false, false, false, false
	for _, l := range strings.Split(string(out), "\n") {
		if strings.HasPrefix(l, "HVC-REPLAY") {
			lines = append(lines, l)
			if strings.Contains(l, "clause=requires:") && !strings.HasSuffix(l, "result=true") {
				preBroken = true
			}
			if (strings.Contains(l, "clause=ensures:") || strings.Contains(l, "clause=assert:")) && strings.HasSuffix(l, "result=false") {
				violated = true
			}
			if strings.Contains(l, "call=panic") {
				panicked = true
			}
			if strings.Contains(l, "call=returned") {
				completed = true
			}
		}
	}
	if len(lines) == 0 {
		rep.ReplayLog = "replay test of the region did not run: " + clip(string(out), 1500)
		return
	}
	log := strings.Join(lines, "\n")
	if len(notes) > 0 {
		log += "\nnot evaluated: " + strings.Join(notes, "; ")
	}
	var sk2 []string
	for _, sk := range skipped {
		if sk != "" {
			sk2 = append(sk2, sk)
		}
	}
	if len(sk2) > 0 {
		log += "\nentry locations left at their zero value (not modelled as numbers): " + clip(strings.Join(sk2, ", "), 400)
	}
	if preBroken {
		rep.ReplayLog = "the rounded model does not satisfy a precondition of the region on the real code; not counted as a reproduction\n" + log
		return
	}
	if panicked && !violated {
		rep.ReplayLog = "the copied region panicked on the constructed entry state (locations the model does not determine are left at their zero value); inconclusive\n" + log
		return
	}
	rep.Replayed = violated
	if violated && candidate {
		rep.Note = "the obligation is undecided by the solvers (" + r.Res.Status + "); a candidate entry state from a reduced query was run through the region's real statements and VIOLATES a clause (all evaluable preconditions hold): failing input found"
	} else if violated {
		rep.Note = "counterexample of the verifier replayed on the region's real statements (copied verbatim into a test): a clause is violated on the concrete entry state below (model)"
	} else if !completed {
		log = "the region left through a return/break/continue before its end on the model's entry state; the postconditions speak about the normal exit; inconclusive\n" + log
	} else {
		log = "the real statements satisfy the evaluated clauses on the model's entry state (the failing obligation is internal to the proof, or depends on an abstracted value)\n" + log
	}
	rep.ReplayLog = log
}

func ghostSortOf(uc *UnitContract, name string) string {
	for _, g := range uc.Ghosts {
		if g.Name == name {
			return g.Sort
		}
	}
	return "int"
}

func typeOfLval(x *Exec, rootOfVar map[string]string, lval string) types.Type {
	for key, gname := range rootOfVar {
		if lval == gname || strings.HasPrefix(lval, gname+".") {
			if t, ok := x.keyTypes[key+lval[len(gname):]]; ok {
				return t
			}
		}
	}
	return nil
}

// evalKind: sort of a program expression (evaluated symbolically on a throw-away copy of the entry state).
func (x *Exec) evalKind(e ast.Expr, st *State) SortKind {
	x.dry++
	nerr := len(x.errs)
	defer func() {
		x.dry--
		x.errs = x.errs[:nerr]
		recover()
	}()
	v := x.eval(e, st.clone(), nil)
	if v.Term == nil {
		return SU
	}
	return v.Term.S.K
}
