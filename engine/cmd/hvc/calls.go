package main

import (
	"fmt"
	"go/ast"
	"go/token"
	"go/types"
	"math/big"
	"os"
	"strings"
)

func (x *Exec) fileData(name string) []byte {
	if x.files == nil {
		x.files = map[string][]byte{}
	}
	if d, ok := x.files[name]; ok {
		return d
	}
	d, err := os.ReadFile(name)
	if err != nil {
		d = nil
	}
	x.files[name] = d
	return d
}

func (x *Exec) evalArgs(args []ast.Expr, st *State, sp *SpecCtx) []Value {
	var out []Value
	for _, a := range args {
		v := x.eval(a, st, sp)
		if len(v.Tuple) > 0 && len(args) == 1 && v.Term == nil {
			return v.Tuple
		}
		out = append(out, v)
	}
	return out
}

func numTerm(v Value) *Term {
	if v.Term != nil && (v.Term.S.K == SInt || v.Term.S.K == SReal) {
		return v.Term
	}
	return nil
}

var floatT = types.Typ[types.Float64]
var intT = types.Typ[types.Int]
var boolT = types.Typ[types.Bool]

func (x *Exec) evalCall(e *ast.CallExpr, st *State, sp *SpecCtx) Value {
	// ---- conversions ----
	if sp == nil {
		if tv, ok := x.info.Types[e.Fun]; ok && tv.IsType() {
			v := x.eval(e.Args[0], st, sp)
			return x.convert(v, tv.Type, st)
		}
	} else if id, ok := e.Fun.(*ast.Ident); ok {
		switch id.Name {
		case "int", "int64", "uint64", "uint":
			return x.convert(x.eval(e.Args[0], st, sp), intT, st)
		case "float64", "real":
			return x.convert(x.eval(e.Args[0], st, sp), floatT, st)
		}
		if v, ok := x.specForm(id.Name, e, st, sp); ok {
			return v
		}
	}
	if sp != nil && len(e.Args) == 0 {
		// observer pseudo-fields in contract expressions: d.datetime.YearDay()
		if sel, ok := e.Fun.(*ast.SelectorExpr); ok {
			switch sel.Sel.Name {
			case "Year", "YearDay", "Day", "Month":
				if _, isMacro := sp.bound[sel.Sel.Name]; !isMacro && sp.macro(sel.Sel.Name) == nil {
					if loc := x.lval(sel.X, st, sp); loc != nil && !loc.Opaque && len(loc.Idx) == 0 {
						pk := loc.Key + ".$" + sel.Sel.Name
						return x.readLoc(st, &Loc{Key: pk, T: intT, KeyT: intT})
					}
				}
			}
		}
	}
	rt := x.typeOf(e, sp)
	// ---- builtins ----
	if id, ok := e.Fun.(*ast.Ident); ok {
		isBuiltin := false
		if sp == nil {
			_, isBuiltin = x.info.Uses[id].(*types.Builtin)
		} else {
			_, isBuiltin = types.Universe.Lookup(id.Name).(*types.Builtin)
			if _, shadow := sp.bound[id.Name]; shadow {
				isBuiltin = false
			}
		}
		if isBuiltin {
			return x.evalBuiltin(id.Name, e, st, sp, rt)
		}
	}
	// ---- package-level functions of other packages ----
	if sel, ok := e.Fun.(*ast.SelectorExpr); ok {
		if id, ok := sel.X.(*ast.Ident); ok {
			if pn, ok := x.lookupObj(id, sp).(*types.PkgName); ok {
				path := pn.Imported().Path()
				if fn, ok := pn.Imported().Scope().Lookup(sel.Sel.Name).(*types.Func); ok {
					if fu := x.prog.ByObj[fn]; fu != nil {
						args := x.evalArgs(e.Args, st, sp)
						return x.callRepo(fu, nil, args, e, st)
					}
				}
				return x.evalExternal(path, sel.Sel.Name, e, st, sp, rt)
			}
		}
	}
	// ---- repo functions, methods, closures ----
	var fnObj *types.Func
	var recv *Value
	switch f := e.Fun.(type) {
	case *ast.Ident:
		obj := x.lookupObj(f, sp)
		switch o := obj.(type) {
		case *types.Func:
			fnObj = o
		case *types.Var:
			fv := x.readLoc(st, x.varLoc(o))
			if fv.Fn != nil {
				args := x.evalArgs(e.Args, st, sp)
				return x.callClosure(fv.Fn, args, e, st)
			}
			// a local function variable whose value is not known here (defined before the region under verification):
			// if the enclosing function assigns it exactly once, and a function literal, that literal is what is called.
			if lit := x.uniqueClosureDef(o); lit != nil {
				cv := x.eval(lit, st, nil)
				if cv.Fn != nil {
					args := x.evalArgs(e.Args, st, sp)
					return x.callClosure(cv.Fn, args, e, st)
				}
			}
			if _, isSig := o.Type().Underlying().(*types.Signature); isSig {
				x.trustedUsed[fmt.Sprintf("%s: call through the function variable %s whose value is not known here: its effects are not modelled", x.uc.ID(), o.Name())] = true
			}
		}
	case *ast.SelectorExpr:
		if sp == nil {
			if s, ok := x.info.Selections[f]; ok {
				switch s.Kind() {
				case types.MethodVal:
					fnObj, _ = s.Obj().(*types.Func)
					rv := x.receiverValue(f.X, s, st)
					recv = &rv
				case types.FieldVal:
					fv := x.eval(f, st, sp)
					if fv.Fn != nil {
						args := x.evalArgs(e.Args, st, sp)
						return x.callClosure(fv.Fn, args, e, st)
					}
					// function-valued field: resolved through a contract alias, if any
					if alias := x.fieldFuncAlias(f.Sel.Name); alias != nil {
						args := x.evalArgs(e.Args, st, sp)
						return x.callWithContract(alias.fu, alias.uc, nil, args, e, st)
					}
				}
			}
		}
	case *ast.FuncLit:
		args := x.evalArgs(e.Args, st, sp)
		fv := x.eval(f, st, sp)
		return x.callClosure(fv.Fn, args, e, st)
	}
	args := x.evalArgs(e.Args, st, sp)
	if fnObj != nil {
		if fu := x.prog.ByObj[fnObj]; fu != nil {
			return x.callRepo(fu, recv, args, e, st)
		}
		// pure observers of an external value type (time.Time): modelled as read-only pseudo-fields of the receiver
		// location, so that two calls on the same unchanged value agree (the value itself stays opaque)
		if fnObj.Pkg() != nil && fnObj.Pkg().Path() == "time" && sp == nil {
			switch fnObj.Name() {
			case "Year", "YearDay", "Day", "Month":
				if sel, ok := e.Fun.(*ast.SelectorExpr); ok {
					if loc := x.lval(sel.X, st, nil); loc != nil && !loc.Opaque && len(loc.Idx) == 0 && rt != nil {
						pk := loc.Key + ".$" + fnObj.Name()
						return x.readLoc(st, &Loc{Key: pk, T: rt, KeyT: rt})
					}
				}
			}
		}
		// method of an external type or interface
		return x.opaqueCall(x.src(e.Fun), recv, args, e, st, rt)
	}
	return x.opaqueCall(x.src(e.Fun), recv, args, e, st, rt)
}

func (x *Exec) receiverValue(xe ast.Expr, s *types.Selection, st *State) Value {
	// pointer receiver on an addressable operand: take its address
	sig := s.Obj().Type().(*types.Signature)
	_, ptrRecv := sig.Recv().Type().Underlying().(*types.Pointer)
	xt := x.info.TypeOf(xe)
	_, isPtr := xt.Underlying().(*types.Pointer)
	if len(s.Index()) > 1 {
		// promoted through embedded fields: resolve the embedded path
		loc := x.lval(xe, st, nil)
		if loc == nil {
			v := x.eval(xe, st, nil)
			loc = v.Ptr
		} else if isPtr {
			loc = x.readLoc(st, loc).Ptr
		}
		if loc != nil && !loc.Opaque {
			cur := loc
			t := cur.T
			for _, i := range s.Index()[:len(s.Index())-1] {
				if p, ok := t.Underlying().(*types.Pointer); ok {
					t = p.Elem()
				}
				stt, ok := t.Underlying().(*types.Struct)
				if !ok {
					break
				}
				f := stt.Field(i)
				cur = &Loc{Key: cur.Key + "." + f.Name(), T: f.Type(), KeyT: f.Type()}
				t = f.Type()
				if _, ok := t.Underlying().(*types.Pointer); ok {
					pv := x.readLoc(st, cur)
					if pv.Ptr != nil {
						cur = pv.Ptr
						t = cur.T
					}
				}
			}
			if ptrRecv {
				return Value{Ptr: cur}
			}
			return x.readLoc(st, cur)
		}
		return Value{Ptr: &Loc{Opaque: true}}
	}
	if ptrRecv && !isPtr {
		loc := x.lval(xe, st, nil)
		if loc == nil {
			return Value{Ptr: &Loc{Opaque: true}}
		}
		return Value{T: types.NewPointer(xt), Ptr: loc}
	}
	v := x.eval(xe, st, nil)
	if !ptrRecv && isPtr && v.Ptr != nil {
		return x.readLoc(st, v.Ptr)
	}
	return v
}

func (x *Exec) convert(v Value, t types.Type, st *State) Value {
	s := sortOf(t)
	if v.Term == nil {
		if v.T != nil && types.Identical(v.T.Underlying(), t.Underlying()) {
			v.T = t
			return v
		}
		return x.freshValue("conv", t, st)
	}
	switch {
	case s.K == SReal && v.Term.S.K == SInt:
		return Value{T: t, Term: ToReal(v.Term)}
	case s.K == SInt && v.Term.S.K == SReal:
		return Value{T: t, Term: TruncToInt(v.Term)}
	case s.K == v.Term.S.K && s.K != SArr:
		return Value{T: t, Term: v.Term}
	case s.Eq(v.Term.S):
		v.T = t
		return v
	}
	x.abstract("conversion to " + t.String())
	return x.freshValue("conv", t, st)
}

func (x *Exec) evalBuiltin(name string, e *ast.CallExpr, st *State, sp *SpecCtx, rt types.Type) Value {
	switch name {
	case "len", "cap":
		v := x.eval(e.Args[0], st, sp)
		if v.T != nil {
			switch u := v.T.Underlying().(type) {
			case *types.Array:
				return Value{T: intT, Term: IntLit(u.Len())}
			case *types.Pointer:
				if a, ok := u.Elem().Underlying().(*types.Array); ok {
					return Value{T: intT, Term: IntLit(a.Len())}
				}
			}
		}
		if v.Len != nil {
			return Value{T: intT, Term: v.Len}
		}
		if v.Dom != nil {
			// the number of entries of a map is a function of its key set (two evaluations on the same map agree)
			l := App("maplen", IntS, v.Dom)
			x.assumeGlobal(Ge(l, IntLit(0)), "maplen>=0")
			return Value{T: intT, Term: l}
		}
		if v.Term != nil && v.Term.S.K == SStr {
			l := App("strlen", IntS, v.Term)
			x.assumeGlobal(Ge(l, IntLit(0)), "strlen>=0")
			return Value{T: intT, Term: l}
		}
		l := x.freshSym("len", IntS)
		x.assumeGlobal(Ge(l, IntLit(0)), "len>=0")
		return Value{T: intT, Term: l}
	case "append":
		s := x.eval(e.Args[0], st, sp)
		if e.Ellipsis.IsValid() || s.Term == nil || s.Len == nil || s.Term.S.K != SArr {
			for _, a := range e.Args[1:] {
				x.eval(a, st, sp)
			}
			return x.freshValue("append", rt, st)
		}
		cur, l := s.Term, s.Len
		for _, a := range e.Args[1:] {
			v := x.eval(a, st, sp)
			if v.Term == nil || !(v.Term.S.Eq(cur.S.Elem) || compatible(v.Term.S, cur.S.Elem)) {
				return x.freshValue("append", rt, st)
			}
			cur = Store(cur, l, v.Term)
			l = Add(l, IntLit(1))
		}
		return Value{T: s.T, Term: cur, Len: l}
	case "make":
		t := rt
		if sp == nil {
			t = x.info.TypeOf(e.Args[0])
		}
		if t == nil {
			return x.freshValue("make", rt, st)
		}
		switch t.Underlying().(type) {
		case *types.Slice:
			z := x.zeroValue(t)
			if len(e.Args) > 1 {
				n := x.eval(e.Args[1], st, sp)
				if n.Term != nil {
					z.Len = n.Term
				}
			}
			return z
		case *types.Map:
			return x.zeroValue(t)
		}
		return x.freshValue("make", t, st)
	case "new":
		t := x.info.TypeOf(e.Args[0])
		x.fresh++
		key := fmt.Sprintf("new!%d", x.fresh)
		loc := &Loc{Key: key, T: t, KeyT: t}
		x.keyTypes[key] = t
		x.writeLoc(st, loc, x.zeroValue(t))
		return Value{T: rt, Ptr: loc}
	case "min", "max":
		var acc *Term
		for _, a := range e.Args {
			v := x.eval(a, st, sp)
			t := numTerm(v)
			if t == nil {
				return x.freshValue(name, rt, st)
			}
			if acc == nil {
				acc = t
			} else if name == "min" {
				a2, b2 := unifyNum(acc, t)
				acc = Ite(Le(a2, b2), a2, b2)
			} else {
				a2, b2 := unifyNum(acc, t)
				acc = Ite(Ge(a2, b2), a2, b2)
			}
		}
		return Value{T: rt, Term: acc}
	case "panic":
		for _, a := range e.Args {
			x.eval(a, st, sp)
		}
		x.fatal(st, e, "panic")
		return Value{}
	case "delete":
		loc := x.lval(e.Args[0], st, sp)
		k := x.eval(e.Args[1], st, sp)
		if loc != nil && !loc.Opaque && k.Term != nil {
			m := x.readLoc(st, loc)
			if m.Dom != nil {
				m.Dom = Store(m.Dom, k.Term, False)
				x.writeLoc(st, loc, m)
				return Value{}
			}
		}
		if loc != nil && !loc.Opaque {
			x.havocPrefix(st, loc.Key)
		}
		return Value{}
	case "copy", "print", "println", "close", "clear":
		for _, a := range e.Args {
			x.eval(a, st, sp)
		}
		if name == "copy" {
			loc := x.lval(e.Args[0], st, sp)
			if loc != nil && !loc.Opaque && len(loc.Idx) == 0 {
				dst := x.readLoc(st, loc)
				src := x.eval(e.Args[1], st, sp)
				if dst.Term != nil && src.Term != nil && dst.Len != nil && src.Len != nil && dst.Term.S.K == SArr && dst.Term.S.Eq(src.Term.S) {
					// dst[i] = src[i] for i < min(len(dst), len(src)); the rest of dst is unchanged
					n := Ite(Le(dst.Len, src.Len), dst.Len, src.Len)
					nd := x.freshSym(loc.Key, dst.Term.S)
					x.fresh++
					k := Sym(fmt.Sprintf("cp?%d", x.fresh), IntS)
					x.assume(st, Forall([]*Term{k}, Eq(Select(nd, k), Ite(And(Le(IntLit(0), k), Lt(k, n)), Select(src.Term, k), Select(dst.Term, k)))), "copy")
					st.store[loc.Key] = nd
					return Value{T: intT, Term: n}
				}
			}
			if loc != nil && !loc.Opaque {
				x.havocKey(st, loc.Key)
			}
		}
		return x.freshValue(name, rt, st)
	}
	x.abstract("builtin " + name)
	return x.freshValue(name, rt, st)
}

// fatal ends the current path (log.Fatal, panic, os.Exit).
func (x *Exec) fatal(st *State, e ast.Node, what string) {
	if tags, on := x.safetyOn("nofatal"); on && x.specDepth == 0 {
		x.assert(st, False, "no-abort", fmt.Sprintf("%s/no-abort:%s", x.uc.ID(), x.posKey(e.Pos())), tags, e.Pos(), what+" unreachable")
	}
	st.pc = False
}

func (x *Exec) mathAxiom(lbl string, t *Term) {
	x.axioms[lbl] = true
	x.assumptions = append(x.assumptions, Assump{T: t, Lbl: "axiom:" + lbl})
}

func (x *Exec) evalExternal(path, name string, e *ast.CallExpr, st *State, sp *SpecCtx, rt types.Type) Value {
	args := x.evalArgs(e.Args, st, sp)
	if path == "math" {
		if v, ok := x.evalMath(name, args, st, e); ok {
			return v
		}
	}
	switch path {
	case "log":
		if strings.HasPrefix(name, "Fatal") || strings.HasPrefix(name, "Panic") {
			x.fatal(st, e, "log."+name)
			return Value{}
		}
		return Value{}
	case "os":
		if name == "Exit" {
			x.fatal(st, e, "os.Exit")
			return Value{}
		}
	case "errors":
		if name == "New" {
			v := x.freshSym("err", US)
			x.assumeGlobal(Ne(v, nilU), "errors.New != nil")
			return Value{T: rt, Term: v}
		}
	case "fmt":
		switch name {
		case "Errorf":
			v := x.freshSym("err", US)
			x.assumeGlobal(Ne(v, nilU), "fmt.Errorf != nil")
			return Value{T: rt, Term: v}
		case "Sprintf", "Sprint", "Sprintln":
			x.ghostAtCall(e, st)
			return Value{T: rt, Term: x.freshSym("str", StrS)}
		case "Print", "Println", "Printf":
			x.ghostAtCall(e, st)
			return x.freshValue("fmt", rt, st)
		}
	}
	x.ghostAtCall(e, st)
	return x.opaqueCall(path+"."+name, nil, args, e, st, rt)
}

func (x *Exec) evalMath(name string, args []Value, st *State, e *ast.CallExpr) (Value, bool) {
	var a, b *Term
	if len(args) >= 1 {
		a = numTerm(args[0])
		if a == nil {
			return Value{}, false
		}
		a = ToReal(a)
	}
	if len(args) >= 2 {
		b = numTerm(args[1])
		if b == nil {
			return Value{}, false
		}
		b = ToReal(b)
	}
	r := func(t *Term) (Value, bool) { return Value{T: floatT, Term: t}, true }
	zero := RealLitF(0)
	one := RealLitF(1)
	uf := func(fn string, xs ...*Term) *Term {
		// name the application so axioms are instantiated on a constant
		app := App("m_"+fn, RealS, xs...)
		return app
	}
	switch name {
	case "Abs":
		return r(Ite(Ge(a, zero), a, Neg(a)))
	case "Min":
		return r(Ite(Le(a, b), a, b))
	case "Max":
		return r(Ite(Ge(a, b), a, b))
	case "Floor":
		return r(ToReal(ToIntFloor(a)))
	case "Ceil":
		return r(ToReal(Neg(ToIntFloor(Neg(a)))))
	case "Trunc":
		return r(ToReal(TruncToInt(a)))
	case "Round":
		half := RealLit(big.NewRat(1, 2))
		return r(ToReal(Ite(Ge(a, zero), ToIntFloor(Add(a, half)), Neg(ToIntFloor(Add(Neg(a), half))))))
	case "Mod":
		// math.Mod(a,b) = a - b*trunc(a/b)
		x.divSafety(st, b, e)
		q := RDiv(a, b)
		return r(Sub(a, Mul(b, ToReal(TruncToInt(q)))))
	case "Pow":
		if b.IsNum() {
			if b.Rat.Cmp(big.NewRat(2, 1)) == 0 {
				return r(Mul(a, a))
			}
			if b.Rat.Cmp(big.NewRat(3, 1)) == 0 {
				return r(Mul(a, Mul(a, a)))
			}
			if b.Rat.Cmp(big.NewRat(1, 1)) == 0 {
				return r(a)
			}
			if b.Rat.Sign() == 0 {
				return r(one)
			}
		}
		an := x.nameTerm("powbase", a)
		bn := x.nameTerm("powexp", b)
		p := uf("pow", an, bn)
		x.mathAxiom("pow(x,y) >= 0 for x >= 0", Implies(Ge(an, zero), Ge(p, zero)))
		x.mathAxiom("pow(x,y) > 0 for x > 0", Implies(Gt(an, zero), Gt(p, zero)))
		x.mathAxiom("pow(x,y) <= 1 for 0 <= x <= 1, y >= 0", Implies(And(Ge(an, zero), Le(an, one), Ge(bn, zero)), Le(p, one)))
		x.mathAxiom("pow(x,y) >= 1 for x >= 1, y >= 0", Implies(And(Ge(an, one), Ge(bn, zero)), Ge(p, one)))
		x.mathAxiom("pow(0,y) == 0 for y > 0", Implies(And(Eq(an, zero), Gt(bn, zero)), Eq(p, zero)))
		return r(p)
	case "Exp":
		an := x.nameTerm("exparg", a)
		p := uf("exp", an)
		x.mathAxiom("exp(x) > 0", Gt(p, zero))
		x.mathAxiom("exp(x) <= 1 for x <= 0", Implies(Le(an, zero), Le(p, one)))
		x.mathAxiom("exp(x) >= 1 for x >= 0", Implies(Ge(an, zero), Ge(p, one)))
		x.mathAxiom("exp(x) >= 1 + x", Ge(p, Add(one, an)))
		// numeric facts (true values: exp(-26) = 5.11e-12, exp(-30) = 9.36e-14), monotonicity folded in
		x.mathAxiom("exp(x) <= 6e-12 for x <= -26", Implies(Le(an, RealLitF(-26)), Le(p, RealLit(big.NewRat(6, 1000000000000)))))
		x.mathAxiom("exp(x) <= 1e-13 for x <= -30", Implies(Le(an, RealLitF(-30)), Le(p, RealLit(big.NewRat(1, 10000000000000)))))
		return r(p)
	case "Log":
		an := x.nameTerm("logarg", a)
		p := uf("log", an)
		x.domainSafety(st, Gt(an, zero), e, "log argument positive")
		x.mathAxiom("log(x) <= x - 1 for x > 0", Implies(Gt(an, zero), Le(p, Sub(an, one))))
		x.mathAxiom("log(x) >= 0 for x >= 1", Implies(Ge(an, one), Ge(p, zero)))
		x.mathAxiom("log(x) > 0 for x > 1", Implies(Gt(an, one), Gt(p, zero)))
		x.mathAxiom("log(x) <= 0 for 0 < x <= 1", Implies(And(Gt(an, zero), Le(an, one)), Le(p, zero)))
		return r(p)
	case "Log10":
		an := x.nameTerm("logarg", a)
		p := uf("log10", an)
		x.domainSafety(st, Gt(an, zero), e, "log10 argument positive")
		x.mathAxiom("log10(x) >= 0 for x >= 1", Implies(Ge(an, one), Ge(p, zero)))
		x.mathAxiom("log10(x) <= 0 for 0 < x <= 1", Implies(And(Gt(an, zero), Le(an, one)), Le(p, zero)))
		return r(p)
	case "Sqrt":
		an := x.nameTerm("sqrtarg", a)
		p := uf("sqrt", an)
		x.domainSafety(st, Ge(an, zero), e, "sqrt argument non-negative")
		x.mathAxiom("sqrt(x) >= 0 and sqrt(x)^2 == x for x >= 0", Implies(Ge(an, zero), And(Ge(p, zero), Eq(Mul(p, p), an))))
		return r(p)
	case "Sin", "Cos":
		an := x.nameTerm("trigarg", a)
		p := uf(strings.ToLower(name), an)
		x.mathAxiom("-1 <= sin,cos <= 1", And(Ge(p, Neg(one)), Le(p, one)))
		return r(p)
	case "Tan", "Atan", "Asin", "Acos", "Sinh", "Cosh", "Tanh", "Atan2", "Cbrt", "Log2", "Log1p", "Exp2", "Expm1":
		xs := []*Term{x.nameTerm("arg", a)}
		if b != nil {
			xs = append(xs, x.nameTerm("arg", b))
		}
		p := uf(strings.ToLower(name), xs...)
		switch name {
		case "Asin":
			x.domainSafety(st, And(Ge(xs[0], Neg(one)), Le(xs[0], one)), e, "asin argument in [-1,1]")
			// range of the float64 function: math.Asin(1) == float64(math.Pi)/2 < math.Pi/2 (the untyped constant)
			halfPi := RealLit(new(big.Rat).Quo(piRat(), big.NewRat(2, 1)))
			x.mathAxiom("-math.Pi/2 <= asin <= math.Pi/2 (range of the float64 function)", And(Ge(p, Neg(halfPi)), Le(p, halfPi)))
		case "Acos":
			x.domainSafety(st, And(Ge(xs[0], Neg(one)), Le(xs[0], one)), e, "acos argument in [-1,1]")
			x.mathAxiom("0 <= acos <= pi (bound 3.1416)", And(Ge(p, zero), Le(p, RealLitF(3.1416))))
		case "Atan":
			x.mathAxiom("-pi/2 < atan < pi/2", And(Ge(p, RealLitF(-1.5708)), Le(p, RealLitF(1.5708))))
		case "Tanh":
			x.mathAxiom("-1 <= tanh <= 1", And(Ge(p, Neg(one)), Le(p, one)))
		}
		return r(p)
	case "IsNaN", "IsInf":
		// over the reals there is no NaN/Inf; their birth places are safety obligations
		return Value{T: boolT, Term: False}, true
	case "Inf":
		return Value{T: floatT, Term: x.freshSym("inf", RealS)}, true
	}
	return Value{}, false
}

func (x *Exec) domainSafety(st *State, goal *Term, e ast.Node, what string) {
	tags, on := x.safetyOn("div")
	if !on {
		// `safety domain`: the domain obligations (asin/acos/sqrt/log arguments) without the division obligations
		tags, on = x.safetyOn("domain")
	}
	if !on || x.specDepth > 0 {
		return
	}
	if goal.IsTrue() {
		return
	}
	x.safetyCount["domain"]++
	x.assert(st, goal, "safety-domain", fmt.Sprintf("%s/safety-domain:%s", x.uc.ID(), x.posKey(e.Pos())), tags, e.Pos(), what+": "+x.src(e))
}

// ---------- calls of repository functions ----------

func (x *Exec) isOpaqueCallee(name string) bool {
	for _, o := range x.uc.Opaque {
		if o == name {
			return true
		}
	}
	return false
}

func (x *Exec) pkgDirOf(fu *FuncUnit) string {
	for d, p := range x.prog.Pkgs {
		if p == fu.Pkg {
			return d
		}
	}
	return ""
}

func (x *Exec) callRepo(fu *FuncUnit, recv *Value, args []Value, e *ast.CallExpr, st *State) Value {
	x.ghostAtCall(e, st)
	uc := x.cs.Get(x.pkgDirOf(fu), fu.Name)
	if uc != nil && !x.isOpaqueCallee(fu.Name) {
		if uc.Inline {
			return x.inlineCall(fu, recv, args, e, st)
		}
		x.calleeAbort(fu, uc, st)
		return x.callWithContract(fu, uc, recv, args, e, st)
	}
	// tiny helpers without contract whose body is inlined (methods of DualType etc.)
	if uc == nil && !x.isOpaqueCallee(fu.Name) && x.autoInline(fu) {
		return x.inlineCall(fu, recv, args, e, st)
	}
	x.calleeAbort(fu, uc, st)
	if uc != nil && x.inlineDepth == 0 {
		var pre, post *UseRef
		for _, u := range x.uc.Establishes {
			if u.Target == fu.Name {
				pre = u
			}
		}
		for _, u := range x.uc.Relies {
			if u.Target == fu.Name {
				post = u
			}
		}
		if post != nil {
			// opaque callee used through PART of its contract: the named preconditions are asserted, the call is havoced by
			// its inferred write set, the named postconditions are assumed (they hold under the callee's full precondition;
			// the preconditions not asserted here stay listed as entry assumptions of the callee)
			x.partial = &partialUse{pre: pre, post: post}
			defer func() { x.partial = nil }()
			x.modularNote("partial use of the contract of " + fu.Name + ": postconditions " + strings.Join(post.Names, ", ") + " are assumed after its call and discharged by its own obligations")
			return x.callWithContract(fu, uc, recv, args, e, st)
		}
		if pre != nil {
			x.establishCallPre(fu, uc, recv, args, e, st)
		}
	}
	return x.callOpaqueRepo(fu, recv, args, e, st)
}

// autoInline: small, loop-free, call-free (except math/log) function bodies.
func (x *Exec) autoInline(fu *FuncUnit) bool {
	if x.inlineDepth > 3 {
		return false
	}
	if v, ok := autoInlineCache[fu]; ok {
		return v
	}
	n := 0
	ok := true
	ast.Inspect(fu.Body, func(nd ast.Node) bool {
		switch c := nd.(type) {
		case *ast.ForStmt, *ast.RangeStmt, *ast.GoStmt, *ast.DeferStmt, *ast.SelectStmt, *ast.FuncLit:
			ok = false
		case *ast.CallExpr:
			if sel, isSel := c.Fun.(*ast.SelectorExpr); isSel {
				if id, isId := sel.X.(*ast.Ident); isId && (id.Name == "math" || id.Name == "log") {
					break
				}
			}
			if id, isId := c.Fun.(*ast.Ident); isId {
				switch id.Name {
				case "int", "float64", "len", "min", "max", "int64", "uint64":
					break
				default:
					ok = false
				}
				break
			}
			ok = false
		}
		if _, isStmt := nd.(ast.Stmt); isStmt {
			n++
		}
		return ok
	})
	res := ok && n <= 25
	autoInlineCache[fu] = res
	return res
}

var autoInlineCache = map[*FuncUnit]bool{}

func (x *Exec) bindParams(fu *FuncUnit, recv *Value, args []Value, st *State, write bool) map[string]Value {
	bind := map[string]Value{}
	info := fu.Pkg.TypesInfo
	if fu.Decl != nil && fu.Lit == nil && fu.Decl.Recv != nil && len(fu.Decl.Recv.List) > 0 && recv != nil {
		f := fu.Decl.Recv.List[0]
		if len(f.Names) > 0 {
			bind[f.Names[0].Name] = *recv
			if write {
				if obj, ok := info.Defs[f.Names[0]].(*types.Var); ok {
					x.writeLoc(st, x.varLoc(obj), *recv)
				}
			}
		}
	}
	i := 0
	for _, f := range fu.Type.Params.List {
		names := f.Names
		if len(names) == 0 {
			i++
			continue
		}
		for _, n := range names {
			if i < len(args) {
				bind[n.Name] = args[i]
				if write {
					if obj, ok := info.Defs[n].(*types.Var); ok {
						x.writeLoc(st, x.varLoc(obj), x.convertTo(args[i], obj.Type()))
					}
				}
			}
			i++
		}
	}
	return bind
}

func (x *Exec) inlineCall(fu *FuncUnit, recv *Value, args []Value, e ast.Node, st *State) Value {
	if x.inlineDepth > 6 {
		x.abstract("inline depth exceeded at " + fu.Name)
		return x.callOpaqueRepo(fu, recv, args, e, st)
	}
	savedInfo, savedPkg := x.info, x.pkg
	x.info, x.pkg = fu.Pkg.TypesInfo, fu.Pkg.Types
	x.inlineDepth++
	x.curFunc = append(x.curFunc, fu)
	defer func() {
		x.info, x.pkg = savedInfo, savedPkg
		x.inlineDepth--
		x.curFunc = x.curFunc[:len(x.curFunc)-1]
	}()
	x.bindParams(fu, recv, args, st, true)
	// named results start at zero
	var resLocs []*Loc
	if fu.Type.Results != nil {
		for _, f := range fu.Type.Results.List {
			for _, n := range f.Names {
				if obj, ok := x.info.Defs[n].(*types.Var); ok {
					loc := x.varLoc(obj)
					x.writeLoc(st, loc, x.zeroValue(obj.Type()))
					resLocs = append(resLocs, loc)
				}
			}
		}
	}
	work := st.clone()
	o := x.execBlock(fu.Body.List, work)
	var finals []*State
	var vals [][]Value
	add := func(s *State, vs []Value) {
		if s == nil || s.pc.IsFalse() {
			return
		}
		if len(vs) == 0 && len(resLocs) > 0 {
			for _, l := range resLocs {
				vs = append(vs, x.readLoc(s, l))
			}
		}
		finals = append(finals, s)
		vals = append(vals, vs)
	}
	add(o.Normal, nil)
	for _, r := range o.Rets {
		add(r.St, r.Vals)
	}
	if len(finals) == 0 {
		st.pc = False
		return Value{}
	}
	// merge result values along with states
	nres := 0
	if fu.Sig != nil {
		nres = fu.Sig.Results().Len()
	} else if len(vals) > 0 {
		nres = len(vals[0])
	}
	merged := finals[0]
	mvals := vals[0]
	for i := 1; i < len(finals); i++ {
		pcA := merged.pc
		nm := x.merge(merged, finals[i])
		nv := make([]Value, nres)
		for j := 0; j < nres; j++ {
			var a, b Value
			if j < len(mvals) {
				a = mvals[j]
			}
			if j < len(vals[i]) {
				b = vals[i][j]
			}
			nv[j] = x.mergeValue(pcA, a, b, fu, j, nm)
		}
		merged, mvals = nm, nv
	}
	*st = *merged
	if nres == 0 {
		return Value{}
	}
	if nres == 1 {
		if len(mvals) > 0 {
			return mvals[0]
		}
		return x.freshValue("ret", fu.Sig.Results().At(0).Type(), st)
	}
	return Value{Tuple: mvals}
}

func (x *Exec) mergeValue(pcA *Term, a, b Value, fu *FuncUnit, j int, st *State) Value {
	var t types.Type
	if fu.Sig != nil && j < fu.Sig.Results().Len() {
		t = fu.Sig.Results().At(j).Type()
	}
	if a.Term != nil && b.Term != nil && (a.Term.S.Eq(b.Term.S) || compatible(a.Term.S, b.Term.S)) {
		v := Value{T: t, Term: x.nameTerm("ret", Ite(pcA, a.Term, b.Term))}
		if a.Len != nil && b.Len != nil {
			v.Len = Ite(pcA, a.Len, b.Len)
		}
		if a.Dom != nil && b.Dom != nil {
			v.Dom = Ite(pcA, a.Dom, b.Dom)
		}
		return v
	}
	if a.Ptr != nil && b.Ptr != nil && sameLoc(a.Ptr, b.Ptr) {
		return a
	}
	if a.Fields != nil && b.Fields != nil {
		v := Value{T: t, Fields: map[string]Value{}}
		for k, fa := range a.Fields {
			v.Fields[k] = x.mergeValue(pcA, fa, b.Fields[k], &FuncUnit{}, 0, st)
			fv := v.Fields[k]
			fv.T = fa.T
			v.Fields[k] = fv
		}
		return v
	}
	if a.Term == nil && a.Ptr == nil && a.Fields == nil && !a.IsNil {
		return b
	}
	return x.freshValue("ret", t, st)
}

// uniqueClosureDef: the function literal assigned to the local variable v, if v is assigned exactly once in the enclosing
// function (by := , = or var) and never has its address taken.
func (x *Exec) uniqueClosureDef(v *types.Var) *ast.FuncLit {
	if x.closureDefs == nil {
		x.closureDefs = map[*types.Var]*ast.FuncLit{}
	}
	if lit, ok := x.closureDefs[v]; ok {
		return lit
	}
	var found *ast.FuncLit
	n := 0
	var root ast.Node = x.unit.Body
	if x.unit.Decl != nil {
		root = x.unit.Decl
	}
	ast.Inspect(root, func(nd ast.Node) bool {
		switch s := nd.(type) {
		case *ast.AssignStmt:
			for i, l := range s.Lhs {
				id, ok := l.(*ast.Ident)
				if !ok {
					continue
				}
				obj := x.info.Defs[id]
				if obj == nil {
					obj = x.info.Uses[id]
				}
				if obj != v {
					continue
				}
				n++
				if len(s.Lhs) == len(s.Rhs) {
					if fl, ok := s.Rhs[i].(*ast.FuncLit); ok {
						found = fl
					}
				}
			}
		case *ast.ValueSpec:
			for i, id := range s.Names {
				if x.info.Defs[id] != v {
					continue
				}
				if i < len(s.Values) {
					n++
					if fl, ok := s.Values[i].(*ast.FuncLit); ok {
						found = fl
					}
				}
			}
		case *ast.UnaryExpr:
			if s.Op == token.AND {
				if id, ok := s.X.(*ast.Ident); ok && x.info.Uses[id] == v {
					n += 2
				}
			}
		}
		return true
	})
	if n != 1 {
		found = nil
	}
	x.closureDefs[v] = found
	return found
}

func (x *Exec) callClosure(c *Closure, args []Value, e ast.Node, st *State) Value {
	if c == nil || c.Unit == nil {
		return x.opaqueCall("closure", nil, args, e, st, nil)
	}
	return x.inlineCall(c.Unit, nil, args, e, st)
}

// callWithContract: assert requires, havoc modifies, assume ensures.
func (x *Exec) callWithContract(fu *FuncUnit, uc *UnitContract, recv *Value, args []Value, e ast.Node, st *State) Value {
	ord := 0
	if ce, ok := e.(*ast.CallExpr); ok {
		ord = x.callOrd[ce]
	}
	if ord == 0 {
		x.callCount[fu.Name]++
		ord = 100 + x.callCount[fu.Name]
	}
	bind := x.bindParams(fu, recv, args, st, false)
	sp := &SpecCtx{bound: bind, macros: []map[string]*Macro{uc.Macros, x.cs.Global}, pkg: fu.Pkg.Types, scope: fu.Pkg.Types.Scope(), pos: token.NoPos}
	if uc.Trusted {
		x.trustedUsed[uc.ID()] = true
	}
	// ghost variables of the callee: initialised ones start at their initial value, the others are
	// existential for the caller (a requires clause mentioning one is assumed, not checked: listed as abstracted)
	ghostFree := map[string]bool{}
	for _, gv := range uc.Ghosts {
		if gv.Init != nil {
			x.specDepth++
			sp.bound[gv.Name] = x.convertTo(x.eval(gv.Init, st, sp), ghostType(gv.Sort))
			x.specDepth--
		} else {
			sp.bound[gv.Name] = x.freshValue("ghost:"+fu.Name+"."+gv.Name, ghostType(gv.Sort), st)
			ghostFree[gv.Name] = true
		}
	}
	mentionsFreeGhost := func(e ast.Expr) bool {
		found := false
		ast.Inspect(e, func(n ast.Node) bool {
			if id, ok := n.(*ast.Ident); ok && ghostFree[id.Name] {
				found = true
			}
			return !found
		})
		return found
	}
	savedInfo, savedPkg := x.info, x.pkg
	x.pkg = fu.Pkg.Types
	defer func() { x.info, x.pkg = savedInfo, savedPkg }()
	for _, r := range uc.Requires {
		if !on(r.Tags) {
			continue
		}
		if x.partial != nil && (x.partial.pre == nil || !x.partial.pre.wants(r.Name)) {
			continue
		}
		g := x.specBool(r, st, sp)
		if mentionsFreeGhost(r.Expr) {
			x.abstract("precondition " + r.Name + " of " + fu.Name + " quantifies over a ghost witness: assumed at the call site, not checked")
			x.assume(st, g, "ghost-pre:"+fu.Name+"."+r.Name)
			continue
		}
		x.assert(st, g, "call-pre", fmt.Sprintf("%s/call-pre:%s.%s@%d", x.uc.ID(), fu.Name, r.Name, ord), r.Tags, e.Pos(), "precondition of "+fu.Name+": "+r.Text)
		if x.dry == 0 && x.inlineDepth == 0 {
			x.noteEstablishedAt(uc.ID(), r.Name, e.Pos())
		}
	}
	oldSt := st.clone()
	sp.old = oldSt
	if uc.HasMod {
		for _, m := range uc.Modifies {
			me, err := parseSpecExpr(m)
			if err != nil {
				x.errorf("modifies %s: %v", m, err)
				continue
			}
			loc := x.lval(me, st, sp)
			if loc == nil || loc.Opaque {
				x.errorf("modifies clause %q of %s cannot be resolved", m, fu.Name)
				continue
			}
			x.keyTypes[loc.Key] = loc.keyT()
			x.havocPrefix(st, loc.Key)
		}
	} else {
		x.applyModSummary(fu, recv, args, st)
	}
	// results
	var results []Value
	if fu.Sig != nil {
		res := fu.Sig.Results()
		k := 0
		if fu.Type.Results != nil {
			for _, f := range fu.Type.Results.List {
				if len(f.Names) == 0 {
					v := x.freshValue("res:"+fu.Name, res.At(k).Type(), st)
					results = append(results, v)
					sp.bound[fmt.Sprintf("result%d", k)] = v
					if k == 0 {
						sp.bound["__result"] = v
					}
					k++
					continue
				}
				for _, n := range f.Names {
					v := x.freshValue("res:"+fu.Name+"."+n.Name, res.At(k).Type(), st)
					results = append(results, v)
					sp.bound[n.Name] = v
					sp.bound[fmt.Sprintf("result%d", k)] = v
					if k == 0 {
						sp.bound["__result"] = v
					}
					k++
				}
			}
		}
	}
	for _, gv := range uc.Ghosts {
		if gv.Init != nil {
			sp.bound[gv.Name] = x.freshValue("ghost:"+fu.Name+"."+gv.Name, ghostType(gv.Sort), st)
		}
	}
	for _, en := range uc.Ensures {
		if x.partial != nil {
			// named postconditions regardless of the property tag (discharged in the check of the property they are tagged with)
			if !x.partial.post.wants(en.Name) {
				continue
			}
		} else if !on(en.Tags) {
			continue
		}
		if en.Assumed {
			x.trustedUsed[fmt.Sprintf("%s/post:%s is assumed, not proved: %s", uc.ID(), en.Name, en.Text)] = true
		}
		x.assume(st, x.specBool(en, st, sp), "ensures:"+fu.Name+"."+en.Name)
	}
	if len(results) == 0 {
		return Value{}
	}
	if len(results) == 1 {
		return results[0]
	}
	return Value{Tuple: results}
}

func (x *Exec) callOpaqueRepo(fu *FuncUnit, recv *Value, args []Value, e ast.Node, st *State) Value {
	x.abstract("call of " + fu.Name + " without contract (inferred write set havoced)")
	x.applyModSummary(fu, recv, args, st)
	var rt types.Type
	if fu.Sig != nil {
		switch fu.Sig.Results().Len() {
		case 0:
			return Value{}
		case 1:
			rt = fu.Sig.Results().At(0).Type()
		default:
			rt = fu.Sig.Results()
		}
	}
	return x.freshValue("res:"+fu.Name, rt, st)
}

func (x *Exec) opaqueCall(name string, recv *Value, args []Value, e ast.Node, st *State, rt types.Type) Value {
	x.abstract("external call " + name)
	hav := func(v Value) {
		if v.Ptr != nil && !v.Ptr.Opaque {
			if len(v.Ptr.Idx) == 0 {
				x.havocPrefix(st, v.Ptr.Key)
				if !strings.Contains(v.Ptr.Key, ".") {
					x.havocRoot(st, v.Ptr.Key)
				}
			} else {
				x.havocKey(st, v.Ptr.Key)
			}
		}
	}
	if recv != nil {
		hav(*recv)
	}
	for _, a := range args {
		hav(a)
	}
	if rt == nil {
		return Value{}
	}
	if tup, ok := rt.(*types.Tuple); ok && tup.Len() == 0 {
		return Value{}
	}
	return x.freshValue("ext", rt, st)
}

type aliasTarget struct {
	fu *FuncUnit
	uc *UnitContract
}

// fieldFuncAlias resolves calls through function-valued fields (g.Datum, g.Kalender, g.LangTag) to the
// contract of the closure stored there; declared in the contracts as  //@ func <Closure>  with  alias-of-field NAME.
func (x *Exec) fieldFuncAlias(field string) *aliasTarget {
	for _, u := range x.cs.Units {
		for _, o := range u.Opaque {
			_ = o
		}
		if u.Macros == nil {
			continue
		}
		if m, ok := u.Macros["__alias_"+field]; ok && m != nil {
			for d := range x.prog.Funcs {
				if fu := x.prog.Lookup(d, u.Func); fu != nil && d == u.PkgDir {
					return &aliasTarget{fu, u}
				}
			}
		}
	}
	return nil
}

// piRat: the value of the untyped constant math.Pi as go/constant gives it (exact rational of its decimal expansion).
func piRat() *big.Rat {
	r, _ := new(big.Rat).SetString("3.14159265358979323846264338327950288419716939937510582097494459")
	return r
}
