package main

// fp-exhaustive checks: where a property hinges on float64 rounding (the real-number model of the VCs cannot see it),
// the statements named by the check are taken from the real source and evaluated CONCRETELY, with Go's own float64
// arithmetic, for every value of a finite integer domain. Complete over that domain (labelled exhaustive, not proof).
//
//   //@   fp-exhaustive NAME: ZSR in 1..1048576 ; given g.DT.Num = 1 ; run "WDT = 1 / math.Ceil(ZSR)" ; run "var STEPS float64" ; run "if WDT < g.DT.Num {" ; check int(STEPS) == int(ZSR)

import (
	"fmt"
	"go/ast"
	"go/parser"
	"go/token"
	"math"
	"strconv"
	"strings"
)

type FPCheck struct {
	Name   string
	Var    string
	Lo, Hi int
	Given  map[string]float64
	Runs   []string // statement anchors, executed in this order
	Check  ast.Expr
	Text   string
	Tags   []string
}

func parseFPCheck(t string) (*FPCheck, error) {
	// t = "NAME: part ; part ; ..."
	i := strings.Index(t, ":")
	if i < 0 {
		return nil, fmt.Errorf("fp-exhaustive NAME: ...")
	}
	fc := &FPCheck{Name: strings.TrimSpace(t[:i]), Given: map[string]float64{}, Text: strings.TrimSpace(t[i+1:])}
	if strings.HasPrefix(fc.Name, "[") {
		j := strings.Index(fc.Name, "]")
		fc.Tags = parseTags(fc.Name[:j+1])
		fc.Name = strings.TrimSpace(fc.Name[j+1:])
	}
	for _, part := range splitTop(t[i+1:], ";") {
		part = strings.TrimSpace(part)
		switch {
		case strings.HasPrefix(part, "given "):
			kv := strings.SplitN(strings.TrimPrefix(part, "given "), "=", 2)
			if len(kv) != 2 {
				return nil, fmt.Errorf("given NAME = VALUE")
			}
			v, err := strconv.ParseFloat(strings.TrimSpace(kv[1]), 64)
			if err != nil {
				return nil, err
			}
			fc.Given[strings.TrimSpace(kv[0])] = v
		case strings.HasPrefix(part, "run "):
			a, err := strconv.Unquote(strings.TrimSpace(strings.TrimPrefix(part, "run ")))
			if err != nil {
				return nil, fmt.Errorf("run \"anchor\": %v", err)
			}
			fc.Runs = append(fc.Runs, normWS(a))
		case strings.HasPrefix(part, "check "):
			e, err := parser.ParseExpr(strings.TrimPrefix(part, "check "))
			if err != nil {
				return nil, err
			}
			fc.Check = e
		case strings.Contains(part, " in "):
			f := strings.Fields(part)
			if len(f) != 3 || !strings.Contains(f[2], "..") {
				return nil, fmt.Errorf("VAR in LO..HI")
			}
			fc.Var = f[0]
			r := strings.SplitN(f[2], "..", 2)
			fc.Lo, _ = strconv.Atoi(r[0])
			fc.Hi, _ = strconv.Atoi(r[1])
		case part == "":
		default:
			return nil, fmt.Errorf("unrecognised part %q", part)
		}
	}
	if fc.Var == "" || fc.Check == nil || len(fc.Runs) == 0 {
		return nil, fmt.Errorf("fp-exhaustive needs VAR in LO..HI, run and check parts")
	}
	return fc, nil
}

type cenv map[string]float64

type cerr struct{ msg string }

func cfail(f string, a ...interface{}) { panic(cerr{fmt.Sprintf(f, a...)}) }

func ckey(e ast.Expr) string {
	switch e := e.(type) {
	case *ast.Ident:
		return e.Name
	case *ast.SelectorExpr:
		return ckey(e.X) + "." + e.Sel.Name
	case *ast.ParenExpr:
		return ckey(e.X)
	}
	cfail("unsupported location %T", e)
	return ""
}

func b2f(b bool) float64 {
	if b {
		return 1
	}
	return 0
}

func (env cenv) eval(e ast.Expr) float64 {
	switch e := e.(type) {
	case *ast.ParenExpr:
		return env.eval(e.X)
	case *ast.BasicLit:
		v, err := strconv.ParseFloat(e.Value, 64)
		if err != nil {
			cfail("literal %s", e.Value)
		}
		return v
	case *ast.Ident, *ast.SelectorExpr:
		k := ckey(e)
		if k == "true" {
			return 1
		}
		if k == "false" {
			return 0
		}
		v, ok := env[k]
		if !ok {
			cfail("value of %s is not determined by the check's inputs", k)
		}
		return v
	case *ast.UnaryExpr:
		v := env.eval(e.X)
		switch e.Op {
		case token.SUB:
			return -v
		case token.ADD:
			return v
		case token.NOT:
			return b2f(v == 0)
		}
	case *ast.BinaryExpr:
		if e.Op == token.LAND {
			return b2f(env.eval(e.X) != 0 && env.eval(e.Y) != 0)
		}
		if e.Op == token.LOR {
			return b2f(env.eval(e.X) != 0 || env.eval(e.Y) != 0)
		}
		a, b := env.eval(e.X), env.eval(e.Y)
		switch e.Op {
		case token.ADD:
			return a + b
		case token.SUB:
			return a - b
		case token.MUL:
			return a * b
		case token.QUO:
			return a / b
		case token.LSS:
			return b2f(a < b)
		case token.LEQ:
			return b2f(a <= b)
		case token.GTR:
			return b2f(a > b)
		case token.GEQ:
			return b2f(a >= b)
		case token.EQL:
			return b2f(a == b)
		case token.NEQ:
			return b2f(a != b)
		}
	case *ast.CallExpr:
		var args []float64
		for _, a := range e.Args {
			args = append(args, env.eval(a))
		}
		name := ""
		switch f := e.Fun.(type) {
		case *ast.Ident:
			name = f.Name
		case *ast.SelectorExpr:
			name = ckey(f)
		}
		switch name {
		case "int", "int64":
			return math.Trunc(args[0])
		case "float64", "real":
			return args[0]
		case "math.Ceil":
			return math.Ceil(args[0])
		case "math.Floor":
			return math.Floor(args[0])
		case "math.Round":
			return math.Round(args[0])
		case "math.Trunc":
			return math.Trunc(args[0])
		case "math.Abs":
			return math.Abs(args[0])
		case "math.Max":
			return math.Max(args[0], args[1])
		case "math.Min":
			return math.Min(args[0], args[1])
		}
		cfail("call of %s is outside the concrete evaluator", name)
	}
	cfail("expression %T is outside the concrete evaluator", e)
	return 0
}

func (env cenv) exec(s ast.Stmt) {
	switch s := s.(type) {
	case *ast.AssignStmt:
		if s.Tok != token.ASSIGN && s.Tok != token.DEFINE {
			cfail("assignment operator %s", s.Tok)
		}
		if len(s.Lhs) != len(s.Rhs) {
			cfail("tuple assignment from a call")
		}
		vals := make([]float64, len(s.Rhs))
		for i, r := range s.Rhs {
			vals[i] = env.eval(r)
		}
		for i, l := range s.Lhs {
			env[ckey(l)] = vals[i]
		}
	case *ast.DeclStmt:
		gd, ok := s.Decl.(*ast.GenDecl)
		if !ok || gd.Tok != token.VAR {
			cfail("declaration")
		}
		for _, sp := range gd.Specs {
			vs := sp.(*ast.ValueSpec)
			for i, n := range vs.Names {
				if i < len(vs.Values) {
					env[n.Name] = env.eval(vs.Values[i])
				} else {
					env[n.Name] = 0
				}
			}
		}
	case *ast.IfStmt:
		if s.Init != nil {
			env.exec(s.Init)
		}
		if env.eval(s.Cond) != 0 {
			env.exec(s.Body)
		} else if s.Else != nil {
			env.exec(s.Else)
		}
	case *ast.BlockStmt:
		for _, t := range s.List {
			env.exec(t)
		}
	default:
		cfail("statement %T is outside the concrete evaluator", s)
	}
}

// runFPCheck executes the check; returns "" when it holds on the whole domain, otherwise the first failure.
func (x *Exec) runFPCheck(fc *FPCheck, fu *FuncUnit) (failure string, bindErr string) {
	stmts := make([]ast.Stmt, len(fc.Runs))
	ast.Inspect(fu.Body, func(n ast.Node) bool {
		if fl, ok := n.(*ast.FuncLit); ok && fl.Body != fu.Body {
			return false
		}
		if st, ok := n.(ast.Stmt); ok {
			for i, a := range fc.Runs {
				if stmts[i] == nil && x.anchorMatches(st, a) {
					if _, isBlock := st.(*ast.BlockStmt); !isBlock {
						stmts[i] = st
					}
				}
			}
		}
		return true
	})
	for i, st := range stmts {
		if st == nil {
			return "", fmt.Sprintf("no statement starts with %q", fc.Runs[i])
		}
	}
	defer func() {
		if r := recover(); r != nil {
			if ce, ok := r.(cerr); ok {
				bindErr = ce.msg
				return
			}
			panic(r)
		}
	}()
	for n := fc.Lo; n <= fc.Hi; n++ {
		env := cenv{}
		for k, v := range fc.Given {
			env[k] = v
		}
		env[fc.Var] = float64(n)
		for _, st := range stmts {
			env.exec(st)
		}
		if env.eval(fc.Check) == 0 {
			var vals []string
			for k, v := range env {
				vals = append(vals, fmt.Sprintf("%s=%v", k, v))
			}
			return fmt.Sprintf("%s = %d: %s is false (%s)", fc.Var, n, exprText(fc.Check), strings.Join(vals, ", ")), ""
		}
	}
	return "", ""
}
