package main

// Goal skolemisation and ground instantiation hints for quantified hypotheses.

import "fmt"

// substTerm replaces constant symbols by terms.
func substTerm(t *Term, m map[string]*Term, memo map[*Term]*Term) *Term {
	if r, ok := memo[t]; ok {
		return r
	}
	var r *Term
	switch t.Op {
	case "const":
		if v, ok := m[t.Name]; ok {
			r = v
		} else {
			r = t
		}
	case "lit", "strlit":
		r = t
	case "forall", "exists":
		// bound names are unique (fresh counter), no capture possible
		body := substTerm(t.Args[0], m, memo)
		if body == t.Args[0] {
			r = t
		} else {
			n := *t
			n.Args = []*Term{body}
			r = &n
		}
	default:
		changed := false
		args := make([]*Term, len(t.Args))
		for i, a := range t.Args {
			args[i] = substTerm(a, m, memo)
			if args[i] != a {
				changed = true
			}
		}
		if !changed {
			r = t
		} else {
			n := *t
			n.Args = args
			r = &n
		}
	}
	memo[t] = r
	return r
}

var skolemCounter int

// skolemizeNeg returns a term equivalent (for satisfiability) to Not(goal) in which the universally
// quantified variables of the goal are replaced by fresh constants, and the list of those constants.
func skolemizeNeg(goal *Term) (*Term, []*Term) {
	switch goal.Op {
	case "forall":
		m := map[string]*Term{}
		var ks []*Term
		for _, b := range goal.Bound {
			skolemCounter++
			k := Sym(fmt.Sprintf("sk!%d!%s", skolemCounter, b.Name), b.S)
			m[b.Name] = k
			ks = append(ks, k)
		}
		body := substTerm(goal.Args[0], m, map[*Term]*Term{})
		nb, more := skolemizeNeg(body)
		return nb, append(ks, more...)
	case "and":
		var parts []*Term
		var ks []*Term
		for _, a := range goal.Args {
			p, k := skolemizeNeg(a)
			parts = append(parts, p)
			ks = append(ks, k...)
		}
		return Or(parts...), ks
	case "=>":
		// not (a => b)  ==  a and not b
		nb, ks := skolemizeNeg(goal.Args[1])
		return And(goal.Args[0], nb), ks
	}
	return Not(goal), nil
}

// instances returns ground instances of the universally quantified parts of hypothesis t for the given terms.
func instances(t *Term, insts []*Term) []*Term {
	switch t.Op {
	case "forall":
		if len(t.Bound) != 1 {
			return nil
		}
		var out []*Term
		for _, in := range insts {
			if !in.S.Eq(t.Bound[0].S) {
				continue
			}
			out = append(out, substTerm(t.Args[0], map[string]*Term{t.Bound[0].Name: in}, map[*Term]*Term{}))
		}
		return out
	case "and":
		var out []*Term
		for _, a := range t.Args {
			out = append(out, instances(a, insts)...)
		}
		return out
	case "=>":
		var out []*Term
		for _, i := range instances(t.Args[1], insts) {
			out = append(out, Implies(t.Args[0], i))
		}
		return out
	}
	return nil
}
