package main

// Replay of a solver counterexample against the real code.
//
// For a refuted obligation of a whole-function unit the entry state of the model is read back from the solver
// (get-value on every entry symbol, arrays element by element), an in-package Go test is generated that builds
// that state, calls the REAL function and evaluates the contract clauses (compiled from the same clause ASTs the
// verifier used) on the observed result, and the test is run with `go test -overlay` (nothing is written to /repo).

import (
	"encoding/json"
	"fmt"
	"go/ast"
	"go/token"
	"go/types"
	"math/big"
	"os"
	"os/exec"
	"path/filepath"
	"regexp"
	"sort"
	"strings"
)

func extraAssumptions(prop string) []string { return nil }

// ---------- model read-back ----------

type entryLeaf struct {
	goLval string // Go lvalue text, e.g. g.WG[0][3]
	term   *Term
	kind   SortKind
}

const maxSliceReplay = 24
const maxLeaves = 6000

// leavesOf expands the value stored under a key into scalar leaves (Go lvalue + SMT term).
func leavesOf(lval string, t types.Type, term *Term, out *[]entryLeaf, lens map[string]*Term, key string) bool {
	switch u := t.Underlying().(type) {
	case *types.Basic:
		k := sortOf(t).K
		if k == SInt || k == SReal || k == SBool {
			*out = append(*out, entryLeaf{lval, term, k})
			return true
		}
		return k == SStr // strings keep their zero value (contents are not modelled)
	case *types.Array:
		if u.Len() > 400 {
			return false
		}
		for i := int64(0); i < u.Len(); i++ {
			if !leavesOf(fmt.Sprintf("%s[%d]", lval, i), u.Elem(), Select(term, IntLit(i)), out, lens, "") {
				return false
			}
			if len(*out) > maxLeaves {
				return false
			}
		}
		return true
	case *types.Slice:
		if key == "" {
			return false
		}
		for i := int64(0); i < maxSliceReplay; i++ {
			if !leavesOf(fmt.Sprintf("%s[%d]", lval, i), u.Elem(), Select(term, IntLit(i)), out, lens, "") {
				return false
			}
		}
		return true
	}
	return false
}

func ratOfSexp(s string) (*big.Rat, bool) {
	s = strings.TrimSpace(s)
	if strings.HasPrefix(s, "(") {
		inner := strings.TrimSpace(s[1 : len(s)-1])
		parts := splitSexp(inner)
		if len(parts) == 2 && parts[0] == "-" {
			r, ok := ratOfSexp(parts[1])
			if !ok {
				return nil, false
			}
			return new(big.Rat).Neg(r), true
		}
		if len(parts) == 3 && parts[0] == "/" {
			a, ok1 := ratOfSexp(parts[1])
			b, ok2 := ratOfSexp(parts[2])
			if !ok1 || !ok2 || b.Sign() == 0 {
				return nil, false
			}
			return new(big.Rat).Quo(a, b), true
		}
		return nil, false
	}
	s = strings.TrimSuffix(s, "?")
	r, ok := new(big.Rat).SetString(s)
	return r, ok
}

func splitSexp(s string) []string {
	var out []string
	depth := 0
	start := -1
	for i := 0; i < len(s); i++ {
		c := s[i]
		switch {
		case c == '(':
			if depth == 0 && start < 0 {
				start = i
			}
			depth++
		case c == ')':
			depth--
			if depth == 0 {
				out = append(out, s[start:i+1])
				start = -1
			}
		case c == ' ' || c == '\n' || c == '\t':
			if depth == 0 && start >= 0 {
				out = append(out, s[start:i])
				start = -1
			}
		default:
			if start < 0 {
				start = i
			}
		}
	}
	if start >= 0 {
		out = append(out, s[start:])
	}
	return out
}

func goLiteral(val string, k SortKind) (string, bool) {
	switch k {
	case SBool:
		if val == "true" || val == "false" {
			return val, true
		}
		return "", false
	case SInt:
		r, ok := ratOfSexp(val)
		if !ok || !r.IsInt() {
			return "", false
		}
		if r.Num().BitLen() > 62 {
			return "", false
		}
		return r.Num().String(), true
	case SReal:
		r, ok := ratOfSexp(val)
		if !ok {
			return "", false
		}
		f, _ := r.Float64()
		return fmt.Sprintf("%v", f), true
	}
	return "", false
}

// ---------- clause -> Go ----------

type goCtx struct {
	x       *Exec
	sp      *SpecCtx
	st      *State
	bound   map[string]string // spec-bound names -> Go code (already of the right Go type)
	bkind   map[string]SortKind
	old     bool
	ptrPars map[string]bool   // pointer parameters (have an old_ copy)
	valPars map[string]bool   // value parameters and receiver
	results map[string]string // result names -> Go variables
	alias   map[string]string // macro parameter -> identifier of the enclosing function it stands for
	ghosts  map[string]bool   // input-only ghost variables (read from the model into gh_<name>)
	region  bool              // region replay: locals of the region are visible, ghosts are instrumented variables
	fail    string
}

func (c *goCtx) failf(f string, a ...interface{}) (string, SortKind) {
	if c.fail == "" {
		c.fail = fmt.Sprintf(f, a...)
	}
	return "false", SBool
}

func (c *goCtx) with(name, code string, k SortKind, v Value) *goCtx {
	n := *c
	n.bound = map[string]string{}
	n.bkind = map[string]SortKind{}
	for a, b := range c.bound {
		n.bound[a] = b
	}
	for a, b := range c.bkind {
		n.bkind[a] = b
	}
	n.bound[name] = code
	n.bkind[name] = k
	n.sp = c.sp.with(name, v)
	return &n
}

// kindOf asks the verifier's own evaluator for the sort of a spec expression.
func (c *goCtx) kindOf(e ast.Expr) (SortKind, bool) {
	c.x.specDepth++
	c.x.dry++
	nerr := len(c.x.errs)
	st := c.st
	if c.old && c.sp.old != nil {
		st = c.sp.old
	}
	v := c.x.eval(e, st.clone(), c.sp)
	c.x.dry--
	c.x.specDepth--
	c.x.errs = c.x.errs[:nerr]
	if v.Term == nil {
		return SU, false
	}
	return v.Term.S.K, true
}

func conv(code string, from, to SortKind) string {
	if from == to {
		return code
	}
	if from == SInt && to == SReal {
		return "float64(" + code + ")"
	}
	if from == SReal && to == SInt {
		return "int(" + code + ")"
	}
	return code
}

func goTypeOfKind(k SortKind) string {
	switch k {
	case SInt:
		return "int"
	case SReal:
		return "float64"
	case SBool:
		return "bool"
	case SStr:
		return "string"
	}
	return "interface{}"
}

// leaf compiles an lvalue-like expression (identifier, field, index) to Go source.
func (c *goCtx) leafSrc(e ast.Expr) (string, bool) {
	switch e := e.(type) {
	case *ast.ParenExpr:
		return c.leafSrc(e.X)
	case *ast.Ident:
		if a, ok := c.alias[e.Name]; ok {
			c2 := *c
			c2.alias = nil
			return c2.leafSrc(&ast.Ident{Name: a})
		}
		if code, ok := c.bound[e.Name]; ok {
			return code, true
		}
		if r, ok := c.results[e.Name]; ok {
			return r, true
		}
		if c.ghosts[e.Name] {
			if c.old && c.region {
				return "old_gh_" + e.Name, true
			}
			return "gh_" + e.Name, true
		}
		if c.ptrPars[e.Name] {
			if c.old {
				return "old_" + e.Name, true
			}
			return e.Name, true
		}
		if c.valPars[e.Name] {
			return "p_" + e.Name, true
		}
		// package-level constants and variables of the package under test
		if obj := c.x.pkg.Scope().Lookup(e.Name); obj != nil {
			switch obj.(type) {
			case *types.Const, *types.Var:
				return e.Name, true
			}
		}
		if c.region && !c.old {
			// a variable declared inside the region (visible where the clause is evaluated)
			return e.Name, true
		}
		return "", false
	case *ast.SelectorExpr:
		if id, ok := e.X.(*ast.Ident); ok {
			if _, isBound := c.bound[id.Name]; !isBound && !c.ptrPars[id.Name] && !c.valPars[id.Name] {
				if id.Name == "math" {
					return "math." + e.Sel.Name, true
				}
			}
		}
		b, ok := c.leafSrc(e.X)
		if !ok {
			return "", false
		}
		return b + "." + e.Sel.Name, true
	case *ast.IndexExpr:
		b, ok := c.leafSrc(e.X)
		if !ok {
			return "", false
		}
		ic, ik := c.expr(e.Index)
		if c.fail != "" {
			return "", false
		}
		if ik == SInt {
			return b + "[" + ic + "]", true
		}
		if ik == SStr {
			return b + "[" + ic + "]", true
		}
		return b + "[int(" + ic + ")]", true
	}
	return "", false
}

func (c *goCtx) boolExpr(e ast.Expr) string {
	code, k := c.expr(e)
	if k != SBool && c.fail == "" {
		c.failf("boolean expected: %s", exprText(e))
	}
	return code
}

func (c *goCtx) numPair(a, b ast.Expr) (string, string, SortKind) {
	ca, ka := c.expr(a)
	cb, kb := c.expr(b)
	if ka == SInt && kb == SInt {
		return ca, cb, SInt
	}
	if (ka == SInt || ka == SReal) && (kb == SInt || kb == SReal) {
		return conv(ca, ka, SReal), conv(cb, kb, SReal), SReal
	}
	return ca, cb, ka
}

func (c *goCtx) quant(name string, e *ast.CallExpr, lo, hi, body ast.Expr, forall bool) (string, SortKind) {
	id, ok := e.Args[0].(*ast.Ident)
	if !ok {
		return c.failf("quantifier binder")
	}
	cl, kl := c.expr(lo)
	ch, kh := c.expr(hi)
	c.x.fresh++
	sym := Sym(fmt.Sprintf("rq?%d", c.x.fresh), IntS)
	c2 := c.with(id.Name, "q_"+id.Name, SInt, Value{T: intT, Term: sym})
	cb := c2.boolExpr(body)
	if c2.fail != "" {
		c.fail = c2.fail
	}
	fn := "hvcForall"
	if !forall {
		fn = "hvcExists"
	}
	return fmt.Sprintf("%s(%s, %s, func(q_%s int) bool { return %s })", fn, conv(cl, kl, SInt), conv(ch, kh, SInt), id.Name, cb), SBool
}

func (c *goCtx) expr(e ast.Expr) (string, SortKind) {
	if c.fail != "" {
		return "false", SBool
	}
	switch e := e.(type) {
	case *ast.ParenExpr:
		code, k := c.expr(e.X)
		return "(" + code + ")", k
	case *ast.BasicLit:
		switch e.Kind {
		case token.INT:
			return e.Value, SInt
		case token.FLOAT:
			return "float64(" + e.Value + ")", SReal
		case token.STRING:
			return e.Value, SStr
		}
		return c.failf("literal %s", e.Value)
	case *ast.Ident:
		switch e.Name {
		case "true", "false":
			return e.Name, SBool
		}
		if code, ok := c.bound[e.Name]; ok {
			return code, c.bkind[e.Name]
		}
		src, ok := c.leafSrc(e)
		if !ok {
			return c.failf("%s is not observable from a test (local or ghost variable)", e.Name)
		}
		k, ok := c.kindOf(e)
		if !ok {
			return c.failf("no sort for %s", e.Name)
		}
		return c.wrapLeaf(src, k), k
	case *ast.SelectorExpr, *ast.IndexExpr:
		src, ok := c.leafSrc(e)
		if !ok {
			if c.fail != "" {
				return "false", SBool
			}
			return c.failf("%s is not observable from a test", exprText(e))
		}
		k, ok := c.kindOf(e)
		if !ok {
			return c.failf("no sort for %s", exprText(e))
		}
		return c.wrapLeaf(src, k), k
	case *ast.UnaryExpr:
		code, k := c.expr(e.X)
		switch e.Op {
		case token.NOT:
			return "!(" + code + ")", SBool
		case token.SUB:
			return "(-(" + code + "))", k
		case token.ADD:
			return code, k
		}
		return c.failf("unary %s", e.Op)
	case *ast.BinaryExpr:
		switch e.Op {
		case token.LAND, token.LOR:
			a := c.boolExpr(e.X)
			b := c.boolExpr(e.Y)
			return "(" + a + " " + e.Op.String() + " " + b + ")", SBool
		case token.ADD, token.SUB, token.MUL, token.QUO, token.REM:
			a, b, k := c.numPair(e.X, e.Y)
			if e.Op == token.REM {
				if k != SInt {
					return "math.Mod(" + a + ", " + b + ")", SReal
				}
			}
			if e.Op == token.QUO || e.Op == token.REM {
				return fmt.Sprintf("hvcDiv%s(%q, %s, %s)", map[SortKind]string{SInt: "I", SReal: "F"}[k], e.Op.String(), a, b), k
			}
			return "(" + a + " " + e.Op.String() + " " + b + ")", k
		case token.EQL, token.NEQ, token.LSS, token.LEQ, token.GTR, token.GEQ:
			ca, ka := c.expr(e.X)
			cb, kb := c.expr(e.Y)
			if c.fail != "" {
				return "false", SBool
			}
			num := func(k SortKind) bool { return k == SInt || k == SReal }
			if num(ka) && num(kb) && (ka == SReal || kb == SReal) {
				return fmt.Sprintf("hvcCmp(%q, %s, %s)", e.Op.String(), conv(ca, ka, SReal), conv(cb, kb, SReal)), SBool
			}
			if ka == SArr || kb == SArr || ka == SU || kb == SU {
				if e.Op == token.EQL {
					return "reflect.DeepEqual(" + ca + ", " + cb + ")", SBool
				}
				if e.Op == token.NEQ {
					return "!reflect.DeepEqual(" + ca + ", " + cb + ")", SBool
				}
				return c.failf("ordering of non-numeric values")
			}
			return "(" + ca + " " + e.Op.String() + " " + cb + ")", SBool
		}
		return c.failf("binary %s", e.Op)
	case *ast.CallExpr:
		return c.call(e)
	}
	return c.failf("unsupported expression %s", exprText(e))
}

func (c *goCtx) wrapLeaf(src string, k SortKind) string {
	switch k {
	case SInt:
		return "int(" + src + ")"
	case SReal:
		return "float64(" + src + ")"
	case SStr:
		return "string(" + src + ")"
	}
	return src
}

func (c *goCtx) call(e *ast.CallExpr) (string, SortKind) {
	name := ""
	switch f := e.Fun.(type) {
	case *ast.Ident:
		name = f.Name
	case *ast.SelectorExpr:
		if id, ok := f.X.(*ast.Ident); ok && id.Name == "math" {
			var args []string
			for _, a := range e.Args {
				ca, ka := c.expr(a)
				args = append(args, conv(ca, ka, SReal))
			}
			return "math." + f.Sel.Name + "(" + strings.Join(args, ", ") + ")", SReal
		}
	}
	if name == "" {
		return c.failf("call %s", exprText(e))
	}
	arg := func(i int) (string, SortKind) { return c.expr(e.Args[i]) }
	switch name {
	case "old":
		c2 := *c
		c2.old = true
		code, k := c2.expr(e.Args[0])
		if c2.fail != "" {
			c.fail = c2.fail
		}
		return code, k
	case "pre":
		return c.failf("pre() refers to a loop entry state")
	case "implies":
		return "(!(" + c.boolExpr(e.Args[0]) + ") || (" + c.boolExpr(e.Args[1]) + "))", SBool
	case "iff":
		return "((" + c.boolExpr(e.Args[0]) + ") == (" + c.boolExpr(e.Args[1]) + "))", SBool
	case "ite":
		cc := c.boolExpr(e.Args[0])
		a, b, k := c.numPair(e.Args[1], e.Args[2])
		return fmt.Sprintf("func() %s { if %s { return %s }; return %s }()", goTypeOfKind(k), cc, a, b), k
	case "abs":
		a, k := arg(0)
		return fmt.Sprintf("func() %s { v := %s; if v < 0 { return -v }; return v }()", goTypeOfKind(k), a), k
	case "min", "max":
		a, b, k := c.numPair(e.Args[0], e.Args[1])
		op := "<"
		if name == "max" {
			op = ">"
		}
		return fmt.Sprintf("func() %s { a, b := %s, %s; if a %s b { return a }; return b }()", goTypeOfKind(k), a, b, op), k
	case "real", "float64":
		a, k := arg(0)
		return conv(a, k, SReal), SReal
	case "int", "int64", "uint64", "uint":
		a, k := arg(0)
		return conv(a, k, SInt), SInt
	case "floor":
		a, k := arg(0)
		return "int(math.Floor(" + conv(a, k, SReal) + "))", SInt
	case "ceil":
		a, k := arg(0)
		return "int(math.Ceil(" + conv(a, k, SReal) + "))", SInt
	case "tdiv":
		a, ka := arg(0)
		b, kb := arg(1)
		return "hvcDivI(\"/\", " + conv(a, ka, SInt) + ", " + conv(b, kb, SInt) + ")", SInt
	case "tmod":
		a, ka := arg(0)
		b, kb := arg(1)
		return "hvcDivI(\"%\", " + conv(a, ka, SInt) + ", " + conv(b, kb, SInt) + ")", SInt
	case "len":
		src, ok := c.leafSrc(e.Args[0])
		if !ok {
			return c.failf("len of unobservable value")
		}
		return "len(" + src + ")", SInt
	case "forall", "exists":
		if len(e.Args) != 4 {
			return c.failf("quantifier arity")
		}
		return c.quant(name, e, e.Args[1], e.Args[2], e.Args[3], name == "forall")
	case "allof", "anyof":
		if len(e.Args) != 5 {
			return c.failf("quantifier arity")
		}
		return c.quant(name, e, e.Args[1], e.Args[2], e.Args[4], name == "allof")
	case "sum":
		if len(e.Args) != 5 {
			return c.failf("sum arity")
		}
		id, ok := e.Args[0].(*ast.Ident)
		if !ok {
			return c.failf("sum binder")
		}
		cl, kl := arg(1)
		ch, kh := arg(2)
		c.x.fresh++
		sym := Sym(fmt.Sprintf("rq?%d", c.x.fresh), IntS)
		c2 := c.with(id.Name, "q_"+id.Name, SInt, Value{T: intT, Term: sym})
		cb, kb := c2.expr(e.Args[4])
		if c2.fail != "" {
			c.fail = c2.fail
		}
		return fmt.Sprintf("hvcSum(%s, %s, func(q_%s int) float64 { return %s })", conv(cl, kl, SInt), conv(ch, kh, SInt), id.Name, conv(cb, kb, SReal)), SReal
	case "unchanged":
		var parts []string
		for _, a := range e.Args {
			now, ok1 := c.leafSrc(a)
			c2 := *c
			c2.old = true
			was, ok2 := c2.leafSrc(a)
			if !ok1 || !ok2 {
				return c.failf("unchanged(%s) not observable", exprText(a))
			}
			parts = append(parts, "hvcSame("+now+", "+was+")")
		}
		return "(" + strings.Join(parts, " && ") + ")", SBool
	case "isnil":
		src, ok := c.leafSrc(e.Args[0])
		if !ok {
			return c.failf("isnil of unobservable value")
		}
		return "hvcIsNil(" + src + ")", SBool
	case "indom":
		m, ok := c.leafSrc(e.Args[0])
		k, _ := arg(1)
		if !ok {
			return c.failf("indom of unobservable map")
		}
		return fmt.Sprintf("func() bool { _, ok := %s[%s]; return ok }()", m, k), SBool
	case "m_exp", "m_sqrt", "m_sin", "m_cos", "m_log":
		a, k := arg(0)
		fn := map[string]string{"m_exp": "Exp", "m_sqrt": "Sqrt", "m_sin": "Sin", "m_cos": "Cos", "m_log": "Log"}[name]
		return "math." + fn + "(" + conv(a, k, SReal) + ")", SReal
	case "m_pow":
		a, ka := arg(0)
		b, kb := arg(1)
		return "math.Pow(" + conv(a, ka, SReal) + ", " + conv(b, kb, SReal) + ")", SReal
	}
	if m := c.sp.macro(name); m != nil {
		if len(m.Params) != len(e.Args) {
			return c.failf("macro arity %s", name)
		}
		c2 := c
		for i, p := range m.Params {
			if id, isId := e.Args[i].(*ast.Ident); isId && (c.ptrPars[id.Name] || c.valPars[id.Name]) {
				if _, isB := c.bound[id.Name]; !isB {
					// a parameter of the function passed through: the macro parameter is an alias of it
					c.x.specDepth++
					c.x.dry++
					v := c.x.eval(e.Args[i], c.st.clone(), c.sp)
					c.x.dry--
					c.x.specDepth--
					n := *c2
					n.alias = map[string]string{}
					for a, b := range c2.alias {
						n.alias[a] = b
					}
					if p != id.Name {
						n.alias[p] = id.Name
					}
					n.sp = c2.sp.with(p, v)
					c2 = &n
					continue
				}
			}
			code, k := c.expr(e.Args[i])
			c.x.specDepth++
			c.x.dry++
			st := c.st
			if c.old && c.sp.old != nil {
				st = c.sp.old
			}
			v := c.x.eval(e.Args[i], st.clone(), c.sp)
			c.x.dry--
			c.x.specDepth--
			c2 = c2.with(p, "("+code+")", k, v)
		}
		code, k := c2.expr(m.Body)
		if c2.fail != "" {
			c.fail = c2.fail
		}
		return "(" + code + ")", k
	}
	return c.failf("spec form %s cannot be evaluated on concrete values", name)
}

// ---------- test generation ----------

const replayHelpers = `
func hvcTol(a, b float64) float64 {
	m := math.Max(1, math.Max(math.Abs(a), math.Abs(b)))
	return 1e-9 * m
}
func hvcCmp(op string, a, b float64) bool {
	if math.IsNaN(a) || math.IsNaN(b) || math.IsInf(a, 0) || math.IsInf(b, 0) {
		return false
	}
	t := hvcTol(a, b)
	switch op {
	case "==":
		return math.Abs(a-b) <= t
	case "!=":
		return math.Abs(a-b) > t
	case "<":
		return a < b+t
	case "<=":
		return a <= b+t
	case ">":
		return a > b-t
	case ">=":
		return a >= b-t
	}
	return false
}
func hvcDivI(op string, a, b int) int {
	if b == 0 {
		panic("hvc: integer division by zero in contract clause")
	}
	if op == "%" {
		return a % b
	}
	return a / b
}
func hvcDivF(op string, a, b float64) float64 { return a / b }
func hvcForall(lo, hi int, f func(int) bool) bool {
	for k := lo; k < hi; k++ {
		if !f(k) {
			return false
		}
	}
	return true
}
func hvcExists(lo, hi int, f func(int) bool) bool {
	for k := lo; k < hi; k++ {
		if f(k) {
			return true
		}
	}
	return false
}
func hvcSum(lo, hi int, f func(int) float64) float64 {
	s := 0.0
	for k := lo; k < hi; k++ {
		s += f(k)
	}
	return s
}
func hvcSame(a, b interface{}) bool { return reflect.DeepEqual(a, b) }
func hvcIsNil(v interface{}) bool {
	if v == nil {
		return true
	}
	rv := reflect.ValueOf(v)
	switch rv.Kind() {
	case reflect.Ptr, reflect.Map, reflect.Slice, reflect.Func, reflect.Interface, reflect.Chan:
		return rv.IsNil()
	}
	return false
}
func hvcEval(name string, f func() bool) {
	defer func() {
		if r := recover(); r != nil {
			fmt.Printf("HVC-REPLAY clause=%s result=panic %v\n", name, r)
		}
	}()
	fmt.Printf("HVC-REPLAY clause=%s result=%v\n", name, f())
}
`

func typeStr(t types.Type, pkg *types.Package) string {
	return types.TypeString(t, func(p *types.Package) string {
		if p == pkg {
			return ""
		}
		return p.Name()
	})
}

// tryReplay fills rep.Replayed / rep.ReplayLog. Only refuted (sat) obligations of whole-function units are replayed.
func tryReplay(prog *Program, cs *ContractSet, prop string, r ObResult, rep *Replay, timeout int) {
	ob := r.Ob
	x := ob.exec
	if ob.Concrete != nil {
		rep.Replayed = *ob.Concrete != ""
		rep.ReplayLog = "decided by concrete evaluation of the real statements with float64 arithmetic (exhaustive over the stated domain); failing case: " + *ob.Concrete
		rep.Note = "exhaustive floating-point evaluation of statements taken from /repo's current source"
		return
	}
	if x == nil || x.uc == nil || x.uc.Lemma {
		rep.ReplayLog = "no replay: the obligation is a pure lemma (no code is executed)"
		return
	}
	candidate := false
	if r.Res.Status != "sat" {
		if r.Res.Status != "timeout" && r.Res.Status != "unknown" {
			rep.ReplayLog = "no replay: the solver gave no model (" + r.Res.Status + ")"
			return
		}
		// undecided: look for a candidate entry state with a reduced query and let the real code decide
		candidate = true
		rep.candidate = true
	}
	if x.uc.Region != "" {
		tryReplayRegion(prog, cs, prop, r, rep)
		return
	}
	fu := x.unit
	if fu.Lit != nil {
		rep.ReplayLog = "no replay: the unit is a closure"
		return
	}
	entry := x.entry
	if entry == nil {
		return
	}
	// ---- parameters ----
	ptrPars := map[string]bool{}
	valPars := map[string]bool{}
	type par struct {
		name string
		t    types.Type
		recv bool
	}
	var pars []par
	if fu.Decl.Recv != nil {
		for _, f := range fu.Decl.Recv.List {
			for _, n := range f.Names {
				if obj, ok := fu.Pkg.TypesInfo.Defs[n].(*types.Var); ok {
					pars = append(pars, par{n.Name, obj.Type(), true})
				}
			}
		}
	}
	for _, f := range fu.Type.Params.List {
		if len(f.Names) == 0 {
			rep.ReplayLog = "no replay: unnamed parameter"
			return
		}
		for _, n := range f.Names {
			if obj, ok := fu.Pkg.TypesInfo.Defs[n].(*types.Var); ok {
				pars = append(pars, par{n.Name, obj.Type(), false})
			}
		}
	}
	var setup strings.Builder
	for _, p := range pars {
		if pt, ok := p.t.Underlying().(*types.Pointer); ok {
			if _, isStruct := pt.Elem().Underlying().(*types.Struct); isStruct {
				ptrPars[p.name] = true
				fmt.Fprintf(&setup, "\t%s := new(%s)\n", p.name, typeStr(pt.Elem(), fu.Pkg.Types))
				continue
			}
		}
		valPars[p.name] = true
		fmt.Fprintf(&setup, "\tvar p_%s %s\n", p.name, typeStr(p.t, fu.Pkg.Types))
	}
	// input-only ghost variables (never assigned by a ghost statement, no initial value): witnesses chosen by the model
	ghostIn := map[string]bool{}
	for _, gvv := range x.uc.Ghosts {
		if gvv.Init != nil || strings.HasPrefix(gvv.Sort, "[]") {
			continue
		}
		assigned := false
		for _, ac := range x.uc.AtCalls {
			if ac.LHS == gvv.Name {
				assigned = true
			}
		}
		for _, as := range x.uc.AtStmts {
			if as.LHS == gvv.Name {
				assigned = true
			}
		}
		if !assigned {
			ghostIn[gvv.Name] = true
		}
	}
	// ---- entry leaves ----
	keys := map[string]bool{}
	for k := range entry.store {
		keys[k] = true
	}
	for n := range x.initSyms {
		if strings.HasSuffix(n, "#0") {
			keys[strings.TrimSuffix(n, "#0")] = true
		}
	}
	var klist []string
	for k := range keys {
		klist = append(klist, k)
	}
	sort.Strings(klist)
	var leaves []entryLeaf
	var skipped []string
	var lenLeaves []entryLeaf
	for _, k := range klist {
		if strings.HasPrefix(k, "ghost::") && ghostIn[strings.TrimPrefix(k, "ghost::")] {
			name := strings.TrimPrefix(k, "ghost::")
			term, ok := entry.store[k]
			if !ok {
				term = x.initSyms[k+"#0"]
			}
			if term != nil && (term.S.K == SInt || term.S.K == SReal || term.S.K == SBool) {
				leaves = append(leaves, entryLeaf{"gh_" + name, term, term.S.K})
				fmt.Fprintf(&setup, "\tvar gh_%s %s\n\t_ = gh_%s\n", name, goTypeOfKind(term.S.K), name)
			} else {
				delete(ghostIn, name)
			}
			continue
		}
		if strings.ContainsAny(k, "!>:@") || strings.HasSuffix(k, "#ptrset") || strings.HasSuffix(k, "#fnset") || strings.HasPrefix(k, "ghost") {
			continue
		}
		base := k
		isLen := false
		if strings.HasSuffix(k, "#len") {
			base = strings.TrimSuffix(k, "#len")
			isLen = true
		} else if strings.Contains(k, "#") {
			skipped = append(skipped, k)
			continue
		}
		root := rootOf(base)
		lval := base
		if valPars[root] {
			lval = "p_" + base
		} else if !ptrPars[root] {
			continue
		}
		term, ok := entry.store[k]
		if !ok {
			term = x.initSyms[k+"#0"]
		}
		if term == nil {
			continue
		}
		if isLen {
			lenLeaves = append(lenLeaves, entryLeaf{lval, term, SInt})
			continue
		}
		t := x.keyTypes[k]
		if t == nil {
			skipped = append(skipped, k)
			continue
		}
		if !term.S.Eq(sortOf(t)) {
			skipped = append(skipped, k)
			continue
		}
		n0 := len(leaves)
		if !leavesOf(lval, t, term, &leaves, nil, k) {
			leaves = leaves[:n0]
			skipped = append(skipped, k)
		}
	}
	if len(leaves) > maxLeaves {
		rep.ReplayLog = "no replay: entry state too large"
		return
	}
	// maps with integer keys and scalar values: evaluated at every integer leaf term of the entry state (the keys the
	// code and the contract can name); other keys of the model's map are not materialised
	type mapLeaf struct {
		goLval         string
		keyT, dom, val *Term
		vkind          SortKind
	}
	var mapLeaves []mapLeaf
	for _, k := range klist {
		if strings.ContainsAny(k, "!>:@#") {
			continue
		}
		root := rootOf(k)
		if !ptrPars[root] {
			continue
		}
		t := x.keyTypes[k]
		if t == nil {
			continue
		}
		mt, isMap := t.Underlying().(*types.Map)
		if !isMap || sortOf(mt.Key()).K != SInt {
			continue
		}
		vk := sortOf(mt.Elem()).K
		if vk != SInt && vk != SReal && vk != SBool {
			continue
		}
		mterm, ok1 := entry.store[k]
		if !ok1 {
			mterm = x.initSyms[k+"#0"]
		}
		dterm, ok2 := entry.store[k+"#dom"]
		if !ok2 {
			dterm = x.initSyms[k+"#dom#0"]
		}
		if mterm == nil || dterm == nil {
			continue
		}
		n := 0
		for _, l := range leaves {
			if l.kind == SInt && n < 64 {
				mapLeaves = append(mapLeaves, mapLeaf{k, l.term, Select(dterm, l.term), Select(mterm, l.term), vk})
				n++
			}
		}
		for i, sk := range skipped {
			if sk == k || sk == k+"#dom" {
				skipped[i] = ""
			}
		}
	}
	// ---- model ----
	var gv []*Term
	for _, ml := range mapLeaves {
		gv = append(gv, ml.keyT, ml.dom, ml.val)
	}
	for _, l := range leaves {
		gv = append(gv, l.term)
	}
	for _, l := range lenLeaves {
		gv = append(gv, l.term)
	}
	var model map[string]string
	cases := [][]*Term{nil}
	for _, max := range []int{6, 16, 40} {
		cases = append(cases, ob.SplitPC(max)...)
	}
	for ci, cse := range cases {
		if ci > 30 {
			break
		}
		if candidate {
			break
		}
		res := Solve(ob.ScriptWith(append(append([]*Term{}, cse...), rep.extra...), gv), 20, false)
		if res.Status == "sat" && len(res.Model) > 0 {
			model = res.Model
			break
		}
	}
	if candidate {
		for _, radius := range []int{2, 4, 8} {
			res := Solve(ob.ScriptCandidate(radius, rep.extra, gv), 15, false)
			if res.Status == "sat" && len(res.Model) > 0 {
				model = res.Model
				break
			}
		}
	}
	if model == nil {
		rep.ReplayLog = "no replay: no solver returned values for the entry state"
		if candidate {
			rep.ReplayLog = "no replay: the obligation is undecided (" + r.Res.Status + ") and no candidate entry state was found with the reduced queries"
		}
		return
	}
	rep.scalars = map[*Term]string{}
	rep.scalarKind = map[*Term]SortKind{}
	for _, l := range leaves {
		if l.term.Op == "const" {
			if v, ok := model[termString(l.term)]; ok {
				rep.scalars[l.term] = v
				rep.scalarKind[l.term] = l.kind
			}
		}
	}
	rep.Model = map[string]string{}
	var assign strings.Builder
	sliceLens := map[string]int{}
	for _, l := range lenLeaves {
		if v, ok := model[termString(l.term)]; ok {
			if lit, ok := goLiteral(v, SInt); ok {
				var n int
				fmt.Sscan(lit, &n)
				if n < 0 {
					n = 0
				}
				if n > maxSliceReplay {
					rep.ReplayLog = fmt.Sprintf("no replay: the model needs a slice of length %d for %s (cap %d)", n, l.goLval, maxSliceReplay)
					return
				}
				sliceLens[l.goLval] = n
				rep.Model["len("+l.goLval+")"] = lit
			}
		}
	}
	madeSlices := map[string]bool{}
	reIdx := regexp.MustCompile(`^(.*)\[(\d+)\]$`)
	for _, l := range leaves {
		v, ok := model[termString(l.term)]
		if !ok {
			continue
		}
		lit, ok := goLiteral(v, l.kind)
		if !ok {
			rep.ReplayLog = "no replay: model value of " + l.goLval + " is not a rational number: " + clip(v, 80)
			return
		}
		// slices: allocate once, drop elements beyond the length
		if m := reIdx.FindStringSubmatch(l.goLval); m != nil {
			if n, isSlice := sliceLens[m[1]]; isSlice {
				var idx int
				fmt.Sscan(m[2], &idx)
				if idx >= n {
					continue
				}
				if !madeSlices[m[1]] {
					madeSlices[m[1]] = true
					fmt.Fprintf(&assign, "\t%s = make(%s, %d)\n", m[1], "[]"+elemGoType(x, l.goLval, fu), n)
				}
			}
		}
		if lit == "0" || lit == "false" {
			continue
		}
		rep.Model[l.goLval] = lit
		fmt.Fprintf(&assign, "\t%s = %s\n", l.goLval, lit)
	}
	madeMaps := map[string]bool{}
	for _, ml := range mapLeaves {
		kv, ok1 := model[termString(ml.keyT)]
		dv, ok2 := model[termString(ml.dom)]
		vv, ok3 := model[termString(ml.val)]
		if !ok1 || !ok2 || !ok3 {
			continue
		}
		if !madeMaps[ml.goLval] {
			madeMaps[ml.goLval] = true
			fmt.Fprintf(&assign, "\t%s = %s{}\n", ml.goLval, typeStr(x.keyTypes[ml.goLval], fu.Pkg.Types))
		}
		if dv != "true" {
			continue
		}
		kl, okk := goLiteral(kv, SInt)
		vl, okv := goLiteral(vv, ml.vkind)
		if !okk || !okv {
			continue
		}
		rep.Model[fmt.Sprintf("%s[%s]", ml.goLval, kl)] = vl
		fmt.Fprintf(&assign, "\t%s[%s] = %s\n", ml.goLval, kl, vl)
	}
	// ---- clauses ----
	nres := 0
	if fu.Sig != nil {
		nres = fu.Sig.Results().Len()
	}
	results := map[string]string{}
	var resVars []string
	for i := 0; i < nres; i++ {
		rv := fmt.Sprintf("r%d", i)
		resVars = append(resVars, rv)
		results[fmt.Sprintf("result%d", i)] = rv
		if i == 0 {
			results["__result"] = rv
		}
		if n := fu.Sig.Results().At(i).Name(); n != "" {
			results[n] = rv
		}
	}
	startPos := fu.Body.Pos() + 1
	endPos := fu.Body.End() - 1
	compile := func(cl *Clause, pos token.Pos, withResults bool) (string, string) {
		sp := x.specCtxAt(pos, nil)
		c := &goCtx{x: x, sp: sp, st: entry, bound: map[string]string{}, bkind: map[string]SortKind{}, ptrPars: ptrPars, valPars: valPars, results: map[string]string{}, ghosts: ghostIn}
		if withResults {
			c.results = results
		}
		code := c.boolExpr(cl.Expr)
		return code, c.fail
	}
	var body strings.Builder
	var notes []string
	for _, rq := range x.uc.Requires {
		code, fail := compile(rq, startPos, false)
		if fail != "" {
			notes = append(notes, "requires "+rq.Name+" not evaluated: "+fail)
			continue
		}
		fmt.Fprintf(&body, "\thvcEval(%q, func() bool { return %s })\n", "requires:"+rq.Name, code)
	}
	var pre strings.Builder
	pre.WriteString(body.String())
	body.Reset()
	var clauses []*Clause
	if ob.Kind == "post" {
		for _, en := range x.uc.Ensures {
			if strings.HasSuffix(ob.Name, "/post:"+en.Name) {
				clauses = append(clauses, en)
			}
		}
	}
	if len(clauses) == 0 {
		for _, en := range x.uc.Ensures {
			q := prop
			if x.uc.As[prop] != "" {
				q = x.uc.As[prop]
			}
			if !en.Assumed && hasTag(en.Tags, q) {
				clauses = append(clauses, en)
			}
		}
	}
	evaluated := 0
	for _, en := range clauses {
		code, fail := compile(en, endPos, true)
		if fail != "" {
			notes = append(notes, "ensures "+en.Name+" not evaluated: "+fail)
			continue
		}
		evaluated++
		fmt.Fprintf(&body, "\thvcEval(%q, func() bool { return %s })\n", "ensures:"+en.Name, code)
	}
	if evaluated == 0 {
		rep.ReplayLog = "no replay: no postcondition of the unit can be evaluated on concrete values (" + strings.Join(notes, "; ") + ")"
		return
	}
	// ---- the test file ----
	var src strings.Builder
	fmt.Fprintf(&src, "package %s\n\nimport (\n\t\"fmt\"\n\t\"math\"\n\t\"reflect\"\n\t\"testing\"\n)\n\nvar _ = math.Abs\nvar _ = reflect.DeepEqual\n%s\n", fu.Pkg.Types.Name(), replayHelpers)
	fmt.Fprintf(&src, "func TestHvcReplay(t *testing.T) {\n%s%s", setup.String(), assign.String())
	for p := range ptrPars {
		fmt.Fprintf(&src, "\told_%s := new(%s)\n\t*old_%s = *%s\n\t_ = old_%s\n", p, structTypeOf(pars2types(pars), p, fu), p, p, p)
	}
	src.WriteString(pre.String())
	var args []string
	for _, f := range fu.Type.Params.List {
		for _, n := range f.Names {
			if ptrPars[n.Name] {
				args = append(args, n.Name)
			} else {
				args = append(args, "p_"+n.Name)
			}
		}
	}
	callee := fu.Decl.Name.Name
	if fu.Decl.Recv != nil && len(fu.Decl.Recv.List) > 0 && len(fu.Decl.Recv.List[0].Names) > 0 {
		rn := fu.Decl.Recv.List[0].Names[0].Name
		if ptrPars[rn] {
			callee = rn + "." + callee
		} else {
			callee = "p_" + rn + "." + callee
		}
	}
	src.WriteString("\tfunc() {\n\t\tdefer func() {\n\t\t\tif r := recover(); r != nil {\n\t\t\t\tfmt.Printf(\"HVC-REPLAY call=panic %v\\n\", r)\n\t\t\t}\n\t\t}()\n")
	if nres > 0 {
		fmt.Fprintf(&src, "\t\t%s := %s(%s)\n", strings.Join(resVars, ", "), callee, strings.Join(args, ", "))
		for _, rv := range resVars {
			fmt.Fprintf(&src, "\t\t_ = %s\n", rv)
		}
	} else {
		fmt.Fprintf(&src, "\t\t%s(%s)\n", callee, strings.Join(args, ", "))
	}
	src.WriteString("\t\tfmt.Println(\"HVC-REPLAY call=returned\")\n")
	src.WriteString(strings.ReplaceAll(body.String(), "\n\t", "\n\t\t"))
	src.WriteString("\t}()\n}\n")
	// ---- run ----
	rep.TestSource = src.String()
	rep.PkgDir = x.uc.PkgDir
	out := runReplayTest(rep.PkgDir, rep.TestSource)
	var lines []string
	violated := false
	preBroken := false
	panicked := false
	for _, l := range strings.Split(string(out), "\n") {
		if strings.HasPrefix(l, "HVC-REPLAY") {
			lines = append(lines, l)
			if strings.Contains(l, "clause=requires:") && !strings.HasSuffix(l, "result=true") {
				preBroken = true
			}
			if strings.Contains(l, "clause=ensures:") && strings.HasSuffix(l, "result=false") {
				violated = true
			}
			if strings.Contains(l, "call=panic") {
				panicked = true
			}
		}
	}
	if len(lines) == 0 {
		rep.ReplayLog = "replay test did not run: " + clip(string(out), 1500)
		return
	}
	log := strings.Join(lines, "\n")
	if len(notes) > 0 {
		log += "\nnot evaluated: " + strings.Join(notes, "; ")
	}
	var sk2 []string
	for _, sk := range skipped {
		if sk != "" {
			sk2 = append(sk2, sk)
		}
	}
	skipped = sk2
	if len(skipped) > 0 {
		log += "\nentry locations left at their zero value (not modelled as numbers): " + clip(strings.Join(skipped, ", "), 400)
	}
	if preBroken {
		rep.ReplayLog = "the rounded model does not satisfy a precondition on the real code; not counted as a reproduction\n" + log
		return
	}
	if panicked && !violated {
		rep.ReplayLog = "the real function panicked on the constructed entry state (locations the model does not determine are left at their zero value); inconclusive, not counted as a reproduction\n" + log
		return
	}
	rep.Replayed = violated
	if violated && candidate {
		rep.Note = "the obligation is undecided by the solvers (" + r.Res.Status + "); a candidate entry state from a reduced query was run through the real function and VIOLATES the clause (all evaluable preconditions hold): failing input found"
	} else if violated {
		rep.Note = "counterexample of the verifier replayed on the real function: the clause is violated on the concrete entry state below (model)"
	} else {
		log = "the real function satisfies the evaluated clauses on the model's entry state (the failing obligation is internal to the proof, or depends on an abstracted value)\n" + log
	}
	rep.ReplayLog = log
}

var replaySeq int

// runReplayTest injects the generated in-package test with -overlay (nothing is written to the repository) and runs it.
func runReplayTest(pkgDir, source string) []byte {
	dir := filepath.Join(repoRoot, pkgDir)
	replaySeq++
	testFile := filepath.Join(scratch(), fmt.Sprintf("replay%d_%d_test.go", os.Getpid(), replaySeq))
	os.WriteFile(testFile, []byte(source), 0o644)
	ov := map[string]map[string]string{"Replace": {filepath.Join(dir, "zz_hvc_replay_test.go"): testFile}}
	ovData, _ := json.Marshal(ov)
	ovFile := testFile + ".overlay.json"
	os.WriteFile(ovFile, ovData, 0o644)
	cmd := exec.Command("go", "test", "-overlay", ovFile, "-vet=off", "-count=1", "-timeout", "60s", "-v", "-run", "^TestHvcReplay$", ".")
	cmd.Dir = dir
	cmd.Env = append(os.Environ(), "GOFLAGS=-mod=mod", "GOWORK=off", "GOPROXY=off", "GOSUMDB=off", "GOTOOLCHAIN=local")
	out, _ := cmd.CombinedOutput()
	return out
}

type parT struct {
	name string
	t    types.Type
}

func pars2types(ps interface{}) []parT { return nil }

func structTypeOf(_ []parT, name string, fu *FuncUnit) string {
	find := func(fl *ast.FieldList) string {
		if fl == nil {
			return ""
		}
		for _, f := range fl.List {
			for _, n := range f.Names {
				if n.Name == name {
					if obj, ok := fu.Pkg.TypesInfo.Defs[n].(*types.Var); ok {
						if pt, ok := obj.Type().Underlying().(*types.Pointer); ok {
							return typeStr(pt.Elem(), fu.Pkg.Types)
						}
					}
				}
			}
		}
		return ""
	}
	if s := find(fu.Decl.Recv); s != "" {
		return s
	}
	return find(fu.Type.Params)
}

// elemGoType: Go element type of the slice an lvalue like g.X[3] indexes.
func elemGoType(x *Exec, lval string, fu *FuncUnit) string {
	key := lval
	if i := strings.LastIndex(key, "["); i >= 0 {
		key = key[:i]
	}
	key = strings.TrimPrefix(key, "p_")
	if t, ok := x.keyTypes[key]; ok {
		if s, ok := t.Underlying().(*types.Slice); ok {
			return typeStr(s.Elem(), fu.Pkg.Types)
		}
	}
	return "float64"
}

func replayRecorded(rep *Replay, path string) int {
	fmt.Printf("obligation %s\n  clause: %s\n  solver: %s (%s)\n  replayed on the real code when recorded: %v\n", rep.Obligation, rep.Clause, rep.Status, rep.Solver, rep.Replayed)
	if len(rep.Model) > 0 {
		var ks []string
		for k := range rep.Model {
			ks = append(ks, k)
		}
		sort.Strings(ks)
		fmt.Println("entry state (non-zero values of the model):")
		for _, k := range ks {
			fmt.Printf("  %s = %s\n", k, rep.Model[k])
		}
	}
	if rep.TestSource == "" {
		if rep.ReplayLog != "" {
			fmt.Println(rep.ReplayLog)
		}
		fmt.Println("no executable counterexample was recorded for this obligation (no-failing-input-found); re-run the property's check to re-decide it")
		return 0
	}
	// run the recorded test again against /repo's current working tree
	out := runReplayTest(rep.PkgDir, rep.TestSource)
	violated := false
	n := 0
	for _, l := range strings.Split(string(out), "\n") {
		if strings.HasPrefix(l, "HVC-REPLAY") {
			n++
			fmt.Println(l)
			if strings.Contains(l, "clause=ensures:") && strings.HasSuffix(l, "result=false") {
				violated = true
			}
		}
	}
	if n == 0 {
		fmt.Println("replay test did not run:\n" + clip(string(out), 2000))
		return 2
	}
	if violated {
		fmt.Println("REPRODUCED: the clause is violated by the real code on this entry state")
		return 1
	}
	fmt.Println("not reproduced on the current working tree")
	return 0
}

func cmdSelftest(args []string) int { return runSelftest(args) }

// ---------- encoder cross-check (thorough tier) ----------
//
// For a whole-function unit the solver is asked for entry states that satisfy the preconditions (up to three, pairwise
// different in at least one scalar input); the REAL function is run on each and every postcondition the check has
// PROVED is evaluated on the observed result. A proved clause that is observed false (with all evaluable preconditions
// true) means the translation or a contract is unsound (or depends on float64 rounding): the check is reported broken.

type crossCheck struct {
	Unit      string   `json:"unit"`
	Models    int      `json:"entry_states_run"`
	Evaluated int      `json:"clause_evaluations"`
	Held      bool     `json:"all_proved_clauses_held_on_the_real_code"`
	Failed    []string `json:"failed,omitempty"`
	Note      string   `json:"note,omitempty"`
}

func encoderCrossCheck(prog *Program, cs *ContractSet, prop string, cover *Obligation) crossCheck {
	cc := crossCheck{Unit: cover.Unit, Held: true}
	var block []*Term
	for round := 0; round < 3; round++ {
		rep := &Replay{Property: prop, Obligation: cover.Name, extra: block}
		tryReplay(prog, cs, prop, ObResult{Ob: cover, Res: SolveResult{Status: "sat"}}, rep, 20)
		if rep.TestSource == "" {
			if round == 0 {
				cc.Note = clip(rep.ReplayLog, 200)
			}
			break
		}
		cc.Models++
		pre := true
		var bad []string
		n := 0
		for _, l := range strings.Split(rep.ReplayLog, "\n") {
			if strings.Contains(l, "clause=requires:") && !strings.HasSuffix(l, "result=true") {
				pre = false
			}
			if strings.Contains(l, "clause=ensures:") {
				n++
				if strings.HasSuffix(l, "result=false") {
					bad = append(bad, strings.TrimPrefix(l, "HVC-REPLAY "))
				}
			}
		}
		if pre && !strings.Contains(rep.ReplayLog, "call=panic") {
			cc.Evaluated += n
			if len(bad) > 0 {
				cc.Held = false
				cc.Failed = append(cc.Failed, bad...)
				os.MkdirAll(filepath.Join(outRoot(), "replay", prop), 0o755)
				data, _ := json.MarshalIndent(rep, "", " ")
				os.WriteFile(filepath.Join(outRoot(), "replay", prop, sanitize("crosscheck_"+cover.Unit)+".json"), data, 0o644)
			}
		}
		// block this model on its scalar inputs
		var diff []*Term
		cnt := 0
		for t, v := range rep.scalars {
			k := rep.scalarKind[t]
			if cnt >= 12 {
				break
			}
			switch k {
			case SInt, SReal:
				if r, ok := ratOfSexp(v); ok {
					lit := RealLit(r)
					if k == SInt {
						if !r.IsInt() {
							continue
						}
						lit = BigIntLit(r.Num())
					}
					diff = append(diff, Ne(t, lit))
					cnt++
				}
			}
		}
		if len(diff) == 0 {
			break
		}
		block = append(block, Or(diff...))
	}
	return cc
}
