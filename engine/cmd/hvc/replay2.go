package main

import "fmt"

func tryReplay(prog *Program, cs *ContractSet, prop string, r ObResult, rep *Replay, timeout int) {}

func replayRecorded(rep *Replay, path string) int {
	fmt.Printf("obligation %s (%s): %s\n", rep.Obligation, rep.Clause, rep.Status)
	return 0
}

func extraAssumptions(prop string) []string { return nil }
func cmdSelftest(args []string) int { return 0 }
