package main

import (
	"fmt"
	"go/ast"
	"go/constant"
	"go/token"
	"go/types"
	"strconv"
)

func (x *Exec) specCtxAt(pos token.Pos, pre *State) *SpecCtx {
	fu := x.unit
	sp := &SpecCtx{old: x.entry, pre: pre, bound: map[string]Value{}, pkg: fu.Pkg.Types, pos: pos}
	sp.macros = []map[string]*Macro{x.uc.Macros}
	if x.fuc != nil && x.fuc != x.uc {
		sp.macros = append(sp.macros, x.fuc.Macros)
	}
	sp.macros = append(sp.macros, x.cs.Global)
	sc := fu.Pkg.Types.Scope().Innermost(pos)
	if sc == nil {
		sc = fu.Pkg.Types.Scope()
	}
	sp.scope = sc
	for k, v := range x.retBind {
		sp.bound[k] = v
	}
	return sp
}

func (x *Exec) specBool(c *Clause, st *State, sp *SpecCtx) *Term {
	x.specDepth++
	defer func() { x.specDepth-- }()
	nerr := len(x.errs)
	v := x.eval(c.Expr, st, sp)
	if len(x.errs) > nerr {
		for i := nerr; i < len(x.errs); i++ {
			x.errs[i] = fmt.Sprintf("%s:%d (%s %s): %s", c.File, c.Line, c.Kind, c.Name, x.errs[i])
		}
	}
	if v.Term == nil || v.Term.S.K != SBool {
		x.errorf("%s:%d: clause %s %q is not boolean", c.File, c.Line, c.Kind, c.Text)
		return False
	}
	return v.Term
}

func (x *Exec) specTerm(e ast.Expr, st *State, sp *SpecCtx) *Term {
	x.specDepth++
	defer func() { x.specDepth-- }()
	v := x.eval(e, st, sp)
	if v.Term == nil {
		x.errorf("spec expression has no value")
		return IntLit(0)
	}
	return v.Term
}

func (x *Exec) specArgBool(e ast.Expr, st *State, sp *SpecCtx) *Term {
	v := x.eval(e, st, sp)
	if v.Term == nil || v.Term.S.K != SBool {
		x.errorf("spec sub-expression is not boolean: %s", exprText(e))
		return False
	}
	return v.Term
}

func exprText(e ast.Expr) string { return types.ExprString(e) }

// specForm evaluates the specification-only forms.
func (x *Exec) specForm(name string, e *ast.CallExpr, st *State, sp *SpecCtx) (Value, bool) {
	bv := func(t *Term) (Value, bool) { return Value{T: boolT, Term: t}, true }
	num := func(i int) *Term {
		v := x.eval(e.Args[i], st, sp)
		if t := numTerm(v); t != nil {
			return t
		}
		x.errorf("numeric argument expected in %s: %s", name, exprText(e.Args[i]))
		return IntLit(0)
	}
	switch name {
	case "old":
		if sp.old == nil {
			x.errorf("old() not available here")
			return Value{Term: False}, true
		}
		x.lintOldLocals(e.Args[0], sp)
		return x.eval(e.Args[0], sp.old, sp), true
	case "pre":
		if sp.pre == nil {
			x.errorf("pre() only inside loop invariants")
			return Value{Term: False}, true
		}
		return x.eval(e.Args[0], sp.pre, sp), true
	case "implies":
		return bv(Implies(x.specArgBool(e.Args[0], st, sp), x.specArgBool(e.Args[1], st, sp)))
	case "iff":
		return bv(Eq(x.specArgBool(e.Args[0], st, sp), x.specArgBool(e.Args[1], st, sp)))
	case "ite":
		c := x.specArgBool(e.Args[0], st, sp)
		a := x.eval(e.Args[1], st, sp)
		b := x.eval(e.Args[2], st, sp)
		if a.Term == nil || b.Term == nil {
			x.errorf("ite branches without value")
			return Value{Term: False}, true
		}
		at, bt := unifyNum(a.Term, b.Term)
		return Value{T: a.T, Term: Ite(c, at, bt)}, true
	case "abs":
		a := num(0)
		var z *Term = IntLit(0)
		return Value{Term: Ite(Ge(a, z), a, Neg(a))}, true
	case "forall", "exists":
		if len(e.Args) != 4 {
			x.errorf("%s(k, lo, hi, body)", name)
			return Value{Term: False}, true
		}
		id, ok := e.Args[0].(*ast.Ident)
		if !ok {
			x.errorf("%s: first argument must be an identifier", name)
			return Value{Term: False}, true
		}
		lo, hi := num(1), num(2)
		x.fresh++
		k := Sym(fmt.Sprintf("%s?%d", id.Name, x.fresh), IntS)
		body := x.specArgBool(e.Args[3], st, sp.with(id.Name, Value{T: intT, Term: k}))
		rng := And(Le(lo, k), Lt(k, hi))
		if name == "forall" {
			return bv(Forall([]*Term{k}, Implies(rng, body)))
		}
		return bv(Exists([]*Term{k}, And(rng, body)))
	case "forallreal", "forallint":
		// forallreal(v, body): unbounded quantifier over a real/int variable (lemmas only)
		id, ok := e.Args[0].(*ast.Ident)
		if !ok {
			return Value{Term: False}, true
		}
		x.fresh++
		so := RealS
		ty := types.Type(floatT)
		if name == "forallint" {
			so = IntS
			ty = intT
		}
		k := Sym(fmt.Sprintf("%s?%d", id.Name, x.fresh), so)
		body := x.specArgBool(e.Args[1], st, sp.with(id.Name, Value{T: ty, Term: k}))
		return bv(Forall([]*Term{k}, body))
	case "forallkey":
		// forallkey(k, m, body): for every key k in the domain of map m
		id, ok := e.Args[0].(*ast.Ident)
		if !ok || len(e.Args) != 3 {
			x.errorf("forallkey(k, map, body)")
			return Value{Term: False}, true
		}
		m := x.eval(e.Args[1], st, sp)
		if m.Dom == nil || m.T == nil {
			x.errorf("forallkey: not a tracked map")
			return Value{Term: False}, true
		}
		mt, isMap := m.T.Underlying().(*types.Map)
		if !isMap {
			x.errorf("forallkey: not a map")
			return Value{Term: False}, true
		}
		x.fresh++
		k := Sym(fmt.Sprintf("%s?%d", id.Name, x.fresh), sortOf(mt.Key()))
		kvv := Value{T: mt.Key(), Term: k}
		if stt, isStruct := mt.Key().Underlying().(*types.Struct); isStruct {
			kvv.Fields = map[string]Value{}
			for i := 0; i < stt.NumFields(); i++ {
				f := stt.Field(i)
				kvv.Fields[f.Name()] = Value{T: f.Type(), Term: App("fld_"+f.Name(), sortOf(f.Type()), k)}
			}
		}
		body := x.specArgBool(e.Args[2], st, sp.with(id.Name, kvv))
		return bv(Forall([]*Term{k}, Implies(Select(m.Dom, k), body)))
	case "forallkey2":
		// forallkey2(p, m, k, body): for every key p of the inner map m[k] (map of maps; struct keys get their fields)
		id, ok := e.Args[0].(*ast.Ident)
		if !ok || len(e.Args) != 4 {
			x.errorf("forallkey2(p, mapofmaps, key, body)")
			return Value{Term: False}, true
		}
		m := x.eval(e.Args[1], st, sp)
		k1 := x.eval(e.Args[2], st, sp)
		if m.Dom == nil || m.Dom2 == nil || m.T == nil || k1.Term == nil {
			x.errorf("forallkey2: not a tracked map of maps")
			return Value{Term: False}, true
		}
		mt, isMap := m.T.Underlying().(*types.Map)
		if !isMap {
			x.errorf("forallkey2: not a map")
			return Value{Term: False}, true
		}
		inner, isMap2 := mt.Elem().Underlying().(*types.Map)
		if !isMap2 {
			x.errorf("forallkey2: not a map of maps")
			return Value{Term: False}, true
		}
		x.fresh++
		pk := Sym(fmt.Sprintf("%s?%d", id.Name, x.fresh), sortOf(inner.Key()))
		pv := Value{T: inner.Key(), Term: pk}
		if stt, isStruct := inner.Key().Underlying().(*types.Struct); isStruct {
			pv = Value{T: inner.Key(), Term: pk, Fields: map[string]Value{}}
			for i := 0; i < stt.NumFields(); i++ {
				f := stt.Field(i)
				pv.Fields[f.Name()] = Value{T: f.Type(), Term: App("fld_"+f.Name(), sortOf(f.Type()), pk)}
			}
		}
		body := x.specArgBool(e.Args[3], st, sp.with(id.Name, pv))
		return bv(Forall([]*Term{pk}, Implies(And(Select(m.Dom, k1.Term), Select(Select(m.Dom2, k1.Term), pk)), body)))
	case "sum":
		// sum(k, lo, hi, cap, body): capacity expansion, cap must be a literal
		if len(e.Args) != 5 {
			x.errorf("sum(k, lo, hi, cap, body)")
			return Value{Term: IntLit(0)}, true
		}
		id, _ := e.Args[0].(*ast.Ident)
		lo, hi := num(1), num(2)
		capv := num(3)
		if id == nil || !capv.IsNum() {
			x.errorf("sum: bad binder or non-literal capacity")
			return Value{Term: IntLit(0)}, true
		}
		n := int(capv.Rat.Num().Int64())
		var acc *Term = RealLitF(0)
		for j := 0; j < n; j++ {
			jt := IntLit(int64(j))
			in := And(Le(lo, jt), Lt(jt, hi))
			if in.IsFalse() {
				continue
			}
			bvv := x.eval(e.Args[4], st, sp.with(id.Name, Value{T: intT, Term: jt}))
			bt := numTerm(bvv)
			if bt == nil {
				x.errorf("sum body not numeric")
				return Value{Term: IntLit(0)}, true
			}
			acc = Add(acc, Ite(in, ToReal(bt), RealLitF(0)))
		}
		return Value{T: floatT, Term: acc}, true
	case "anyof", "allof":
		// anyof(k, lo, hi, cap, body): bounded exists/forall expanded over the capacity (no quantifier)
		if len(e.Args) != 5 {
			x.errorf("%s(k, lo, hi, cap, body)", name)
			return Value{Term: False}, true
		}
		id, _ := e.Args[0].(*ast.Ident)
		lo, hi := num(1), num(2)
		capv := num(3)
		if id == nil || !capv.IsNum() {
			x.errorf("%s: bad binder or non-literal capacity", name)
			return Value{Term: False}, true
		}
		n := int(capv.Rat.Num().Int64())
		var parts []*Term
		for j := 0; j < n; j++ {
			jt := IntLit(int64(j))
			in := And(Le(lo, jt), Lt(jt, hi))
			if in.IsFalse() {
				continue
			}
			b := x.specArgBool(e.Args[4], st, sp.with(id.Name, Value{T: intT, Term: jt}))
			if name == "anyof" {
				parts = append(parts, And(in, b))
			} else {
				parts = append(parts, Implies(in, b))
			}
		}
		if name == "anyof" {
			return bv(Or(parts...))
		}
		return bv(And(parts...))
	case "unchanged":
		var cs []*Term
		for _, a := range e.Args {
			nv := x.eval(a, st, sp)
			ov := x.eval(a, sp.old, sp)
			cs = append(cs, valuesEqual(nv, ov))
		}
		return bv(And(cs...))
	case "indom":
		// indom(m, k): key k present in map m
		m := x.eval(e.Args[0], st, sp)
		k := x.eval(e.Args[1], st, sp)
		if m.Dom == nil || k.Term == nil {
			x.errorf("indom(map, key)")
			return Value{Term: False}, true
		}
		return bv(Select(m.Dom, k.Term))
	case "visited":
		// visited(k): key k of the map of the annotated range loop has been visited
		v, ok := sp.bound["__visited"]
		k := x.eval(e.Args[0], st, sp)
		if !ok || v.Term == nil || k.Term == nil {
			x.errorf("visited(k) only inside invariants of a range loop over a map")
			return Value{Term: False}, true
		}
		return bv(Select(v.Term, k.Term))
	case "indom2":
		// indom2(m, k1, k2): m[k1] exists and contains key k2 (map of maps)
		m := x.eval(e.Args[0], st, sp)
		k1 := x.eval(e.Args[1], st, sp)
		k2 := x.eval(e.Args[2], st, sp)
		if m.Dom == nil || m.Dom2 == nil || k1.Term == nil || k2.Term == nil {
			x.errorf("indom2(map of maps, key, key)")
			return Value{Term: False}, true
		}
		return bv(And(Select(m.Dom, k1.Term), Select(Select(m.Dom2, k1.Term), k2.Term)))
	case "ownedlocal":
		// ownership: the pointer designates a variable declared in the body of the function under verification (an object
		// owned by this call), not something reached through a parameter, a field or a callee's result
		v := x.eval(e.Args[0], st, sp)
		if v.Ptr == nil || v.Ptr.Opaque || len(v.Ptr.Idx) > 0 {
			return bv(False)
		}
		for obj, key := range x.varNames {
			if key != v.Ptr.Key {
				continue
			}
			if vv, ok := obj.(*types.Var); ok && !vv.IsField() && x.unit.Body != nil && vv.Pos() >= x.unit.Body.Pos() && vv.Pos() <= x.unit.Body.End() {
				return bv(True)
			}
		}
		return bv(False)
	case "isnil":
		v := x.eval(e.Args[0], st, sp)
		if v.Term != nil && v.Term.S.K == SU {
			return bv(Eq(v.Term, nilU))
		}
		if v.IsNil {
			return bv(True)
		}
		if v.Dom != nil {
			return bv(x.mapNil(v))
		}
		if v.Ptr != nil && !v.Ptr.Opaque {
			// a resolvable pointer (entry-state pointers are modelled as allocated; see DESIGN "pointers")
			return bv(False)
		}
		x.errorf("isnil on non-reference")
		return Value{Term: False}, true
	case "m_exp", "m_sqrt", "m_pow", "m_sin", "m_log", "m_cos":
		var args []Value
		for _, a := range e.Args {
			args = append(args, x.eval(a, st, sp))
		}
		nm := map[string]string{"m_exp": "Exp", "m_sqrt": "Sqrt", "m_pow": "Pow", "m_sin": "Sin", "m_log": "Log", "m_cos": "Cos"}[name]
		v, ok := x.evalMath(nm, args, st, e)
		return v, ok
	case "ufint", "ufreal", "ufbool":
		// uninterpreted spec function: ufint("name", args...)
		lit, ok := e.Args[0].(*ast.BasicLit)
		if !ok {
			x.errorf("%s: first argument must be a string literal", name)
			return Value{Term: False}, true
		}
		fn, _ := strconv.Unquote(lit.Value)
		var ts []*Term
		for _, a := range e.Args[1:] {
			v := x.eval(a, st, sp)
			if v.Term == nil {
				x.errorf("%s: argument without value", name)
				return Value{Term: False}, true
			}
			ts = append(ts, v.Term)
		}
		switch name {
		case "ufint":
			return Value{T: intT, Term: App("uf_"+fn, IntS, ts...)}, true
		case "ufreal":
			return Value{T: floatT, Term: App("uf_"+fn, RealS, ts...)}, true
		}
		return Value{T: boolT, Term: App("uf_"+fn, BoolS, ts...)}, true
	case "store":
		a := x.eval(e.Args[0], st, sp)
		i := x.eval(e.Args[1], st, sp)
		v := x.eval(e.Args[2], st, sp)
		if a.Term == nil || a.Term.S.K != SArr || i.Term == nil || v.Term == nil {
			x.errorf("store(array, index, value)")
			return Value{Term: False}, true
		}
		a.Term = Store(a.Term, i.Term, v.Term)
		return a, true
	case "floor":
		return Value{T: intT, Term: ToIntFloor(ToReal(num(0)))}, true
	case "ceil":
		return Value{T: intT, Term: Neg(ToIntFloor(Neg(ToReal(num(0)))))}, true
	case "tdiv":
		return Value{T: intT, Term: IDiv(num(0), num(1))}, true
	case "tmod":
		return Value{T: intT, Term: IMod(num(0), num(1))}, true
	}
	if m := sp.macro(name); m != nil {
		if len(m.Params) != len(e.Args) {
			x.errorf("macro %s expects %d arguments", name, len(m.Params))
			return Value{Term: False}, true
		}
		n := sp
		for i, p := range m.Params {
			av := x.eval(e.Args[i], st, sp)
			if av.Fields != nil {
				// struct-valued argument: bind by reference so that field selections resolve to the same keys
				if loc := x.lval(e.Args[i], st, sp); loc != nil && !loc.Opaque {
					av = Value{T: av.T, Ptr: loc}
				}
			}
			n = n.with(p, av)
		}
		return x.eval(m.Body, st, n), true
	}
	return Value{}, false
}

func valuesEqual(a, b Value) *Term {
	if a.Fields != nil && b.Fields != nil {
		var cs []*Term
		for k, fa := range a.Fields {
			if fb, ok := b.Fields[k]; ok {
				cs = append(cs, valuesEqual(fa, fb))
			}
		}
		return And(cs...)
	}
	if a.Term != nil && b.Term != nil && (a.Term.S.Eq(b.Term.S) || compatible(a.Term.S, b.Term.S)) {
		c := Eq(a.Term, b.Term)
		if a.Len != nil && b.Len != nil {
			c = And(c, Eq(a.Len, b.Len))
		}
		if a.Dom != nil && b.Dom != nil {
			c = And(c, Eq(a.Dom, b.Dom))
		}
		return c
	}
	if a.Ptr != nil && b.Ptr != nil {
		return boolLit(sameLoc(a.Ptr, b.Ptr))
	}
	return False
}

// ---------- ghost updates attached to call sites ----------

func (x *Exec) calleeText(e *ast.CallExpr) string {
	return types.ExprString(e.Fun)
}

func (x *Exec) ghostAtCall(e *ast.CallExpr, st *State) {
	if x.uc == nil || len(x.uc.AtCalls) == 0 || x.inlineDepth > 0 || x.specDepth > 0 {
		return
	}
	name := x.calleeText(e)
	ord := x.callOrd[e]
	for _, ac := range x.uc.AtCalls {
		if ac.After || ac.Callee != name || (ac.Ordinal != 0 && ac.Ordinal != ord) {
			continue
		}
		x.runGhost(ac, e, st, nil)
	}
}

// ghostAfterCall runs the "after call" ghost updates with the call's results bound to res0, res1, ...
func (x *Exec) ghostAfterCall(e *ast.CallExpr, st *State, res Value) {
	if x.uc == nil || len(x.uc.AtCalls) == 0 || x.inlineDepth > 0 || x.specDepth > 0 {
		return
	}
	name := x.calleeText(e)
	any := false
	for _, ac := range x.uc.AtCalls {
		if ac.After && ac.Callee == name {
			any = true
		}
	}
	if !any {
		return
	}
	ord := x.callOrd[e]
	results := res.Tuple
	if results == nil {
		results = []Value{res}
	}
	for _, ac := range x.uc.AtCalls {
		if !ac.After || ac.Callee != name || (ac.Ordinal != 0 && ac.Ordinal != ord) {
			continue
		}
		x.runGhost(ac, e, st, results)
	}
}

func (x *Exec) ghostSend(s *ast.SendStmt, st *State) {
	if x.uc == nil || x.inlineDepth > 0 {
		return
	}
	name := "send:" + types.ExprString(s.Chan)
	for _, ac := range x.uc.AtCalls {
		if ac.Callee == name {
			x.runGhost(ac, nil, st, nil)
		}
	}
}

func (x *Exec) runGhost(ac *AtCall, e *ast.CallExpr, st *State, results []Value) {
	loc := x.ghostLoc(ac.LHS)
	if loc == nil {
		x.errorf("ghost variable %s not declared", ac.LHS)
		return
	}
	pos := token.NoPos
	if e != nil {
		pos = e.Pos()
	}
	sp := x.specCtxAt(pos, nil)
	if e != nil {
		for i, a := range e.Args {
			sp.bound["arg"+strconv.Itoa(i)] = x.eval(a, st, nil)
		}
	}
	for i, r := range results {
		sp.bound["res"+strconv.Itoa(i)] = r
	}
	x.specDepth++
	v := x.eval(ac.RHS, st, sp)
	x.specDepth--
	x.writeLoc(st, loc, v)
}

var _ = constant.MakeBool

// lintOldLocals: old(e) evaluates e in the entry state. A local variable that is only declared inside the statements under
// verification has no value there - the clause would talk about an unconstrained symbol (unprovable at best, vacuous at
// worst). Reported as a contract error; write old(a)[i] to index the old array with a current value.
func (x *Exec) lintOldLocals(e ast.Expr, sp *SpecCtx) {
	if x.execHi <= x.execLo {
		return
	}
	ast.Inspect(e, func(n ast.Node) bool {
		id, ok := n.(*ast.Ident)
		if !ok {
			return true
		}
		if sp != nil {
			if _, bound := sp.bound[id.Name]; bound {
				return true
			}
		}
		obj := x.lookupObj(id, sp)
		v, ok := obj.(*types.Var)
		if !ok || v.IsField() || v.Pkg() == nil || v.Parent() == v.Pkg().Scope() {
			return true
		}
		if v.Pos() >= x.execLo && v.Pos() <= x.execHi {
			x.errorf("old(...) mentions the local variable %s, which is declared inside the code under verification and has no value at entry (use old(a)[i] to index an old array with a current value)", id.Name)
		}
		return true
	})
}
