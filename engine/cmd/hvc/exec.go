package main

// Symbolic execution of real function bodies (go/ast + go/types) into verification conditions.

import (
	"fmt"
	"go/ast"
	"go/constant"
	"go/token"
	"go/types"
	"math/big"
	"sort"
	"strings"
)

type Assump struct {
	T   *Term
	Def string // symbol defined by this equation, "" for a plain fact
	Lbl string
}

type Obligation struct {
	Name     string
	Unit     string
	Kind     string
	Tags     []string
	PC       *Term
	Goal     *Term
	NAss     int
	Pos      string
	Text     string
	Expect   string // "unsat" (default): goal must be proved
	exec     *Exec
	Concrete *string // set for obligations decided by concrete exhaustive evaluation: "" = holds, otherwise the failing case
}

type Exec struct {
	prog *Program
	cs   *ContractSet
	unit *FuncUnit
	uc   *UnitContract
	fuc  *UnitContract // function-level contract of the same function (for loops), may be nil
	info *types.Info
	pkg  *types.Package

	assumptions    []Assump
	obligations    []*Obligation
	auditNotes     []string
	execLo, execHi token.Pos // source range of the statements under verification
	closureDefs    map[*types.Var]*ast.FuncLit
	autoUnroll     map[ast.Stmt]*LoopContract
	anteCovers     []*Obligation // vacuity audit: reachability of the antecedents of A ==> B clauses
	fresh          int
	genCounter     int
	initSyms       map[string]*Term
	keyTypes       map[string]types.Type
	unsignedKeys   map[string]bool
	dry            int
	abstracted     map[string]bool
	axioms         map[string]bool
	loopOrd        map[ast.Stmt]int
	loopModCache   map[ast.Stmt]map[string]bool
	callCount      map[string]int
	entry          *State // function-entry snapshot for old()
	inlineDepth    int
	curFunc        []*FuncUnit // stack of units being executed (inlining)
	mathFacts      map[string]bool
	trustedUsed    map[string]bool
	varNames       map[types.Object]string
	nameCount      map[string]int
	errs           []string
	retBind        map[string]Value
	specDepth      int
	safetyCount    map[string]int
	files          map[string][]byte
	ghostCalls     map[string]int
	onceAssumed    map[string]bool
	ghostAfter     map[string]int
	callOrd        map[*ast.CallExpr]int
	caseTerms      []*Term
	allStmts       []ast.Stmt          // statements of the unit's function (anchor.go)
	rebound        map[string]ast.Node // anchors re-bound after drift
	renames        map[string]string   // old local name -> new name, learned from re-bound anchors
	renamesLearned bool
	loopMap        map[ast.Stmt]int // current loop -> ordinal in the baseline source (0 = none)
	subRegions     map[ast.Stmt]*subRegion // first statement of a sub-region used modularly ("uses")
	established    map[string]bool         // "TARGET.name": precondition asserted inside this unit (evidence)
	establishedAt  map[string]map[token.Pos]bool // "FUNC.name" -> call sites at which this unit asserts it
	modularUsed    map[string]bool         // notes for the evidence: postconditions of sub-regions assumed here
	partial        *partialUse             // set while an opaque callee is used through part of its contract
}

func NewExec(prog *Program, cs *ContractSet, unit *FuncUnit, uc *UnitContract) *Exec {
	x := &Exec{prog: prog, cs: cs, unit: unit, uc: uc, info: unit.Pkg.TypesInfo, pkg: unit.Pkg.Types,
		initSyms: map[string]*Term{}, keyTypes: map[string]types.Type{}, unsignedKeys: map[string]bool{},
		abstracted: map[string]bool{}, axioms: map[string]bool{}, loopOrd: map[ast.Stmt]int{},
		loopModCache: map[ast.Stmt]map[string]bool{}, callCount: map[string]int{}, mathFacts: map[string]bool{},
		trustedUsed: map[string]bool{}, varNames: map[types.Object]string{}, nameCount: map[string]int{},
		safetyCount: map[string]int{}, ghostCalls: map[string]int{}, ghostAfter: map[string]int{}}
	for i, l := range loopsOf(unit.Body) {
		x.loopOrd[l] = i + 1
	}
	// syntactic call ordinals (per callee text, in source order) for stable obligation names and ghost anchors
	x.callOrd = map[*ast.CallExpr]int{}
	cnt := map[string]int{}
	ast.Inspect(unit.Body, func(n ast.Node) bool {
		if fl, ok := n.(*ast.FuncLit); ok && fl.Body != unit.Body {
			return false
		}
		if c, ok := n.(*ast.CallExpr); ok {
			t := types.ExprString(c.Fun)
			cnt[t]++
			x.callOrd[c] = cnt[t]
		}
		return true
	})
	if uc != nil {
		x.fuc = cs.Get(uc.PkgDir, uc.Func)
	}
	x.curFunc = []*FuncUnit{unit}
	return x
}

func (x *Exec) abstract(msg string) { x.abstracted[msg] = true }

func (x *Exec) errorf(format string, a ...interface{}) {
	x.errs = append(x.errs, fmt.Sprintf(format, a...))
}

func (x *Exec) assumeGlobal(t *Term, lbl string) {
	if t.IsTrue() {
		return
	}
	if x.onceAssumed == nil {
		x.onceAssumed = map[string]bool{}
	}
	key := termString(t)
	if x.onceAssumed[key] {
		return
	}
	x.onceAssumed[key] = true
	x.assumptions = append(x.assumptions, Assump{T: t, Lbl: lbl})
}

func (x *Exec) assume(st *State, t *Term, lbl string) {
	if t.IsTrue() {
		return
	}
	x.assumptions = append(x.assumptions, Assump{T: Implies(st.pc, t), Lbl: lbl})
}

func (x *Exec) assert(st *State, goal *Term, kind, name string, tags []string, pos token.Pos, text string) {
	if x.dry > 0 {
		return
	}
	if st.pc.IsFalse() {
		return
	}
	ob := &Obligation{Name: name, Unit: x.uc.ID(), Kind: kind, Tags: tags, PC: st.pc, Goal: goal, NAss: len(x.assumptions), Text: text, exec: x}
	if pos.IsValid() {
		ob.Pos = x.prog.pos(pos)
	}
	x.obligations = append(x.obligations, ob)
	// assert-then-assume for obligations later statements rely on (call preconditions, safety);
	// postconditions, invariants and lemma goals are checked independently of each other.
	switch kind {
	case "post", "post-exit", "post-return", "inv-step", "inv-init", "lemma", "decreases", "no-abort-call", "frame":
		return
	}
	x.assume(st, goal, "proved:"+name)
}

// ---------- variables ----------

func (x *Exec) varKey(obj types.Object) string {
	if n, ok := x.varNames[obj]; ok {
		return n
	}
	name := obj.Name()
	if obj.Pkg() != nil && obj.Parent() == obj.Pkg().Scope() {
		name = obj.Pkg().Name() + "::" + name
	} else {
		x.nameCount[name]++
		if x.nameCount[name] > 1 {
			name = fmt.Sprintf("%s@%d", name, x.prog.Fset.Position(obj.Pos()).Line)
			for x.nameCount[name] > 0 {
				name += "'"
			}
			x.nameCount[name]++
		}
	}
	x.varNames[obj] = name
	x.keyTypes[name] = obj.Type()
	if isUnsigned(obj.Type()) {
		x.unsignedKeys[name] = true
	}
	return name
}

func (x *Exec) varLoc(obj types.Object) *Loc {
	return &Loc{Key: x.varKey(obj), T: obj.Type(), KeyT: obj.Type()}
}

// ---------- spec context ----------

type SpecCtx struct {
	old    *State
	pre    *State
	bound  map[string]Value
	macros []map[string]*Macro
	scope  *types.Scope // innermost scope for identifier lookup
	pos    token.Pos
	pkg    *types.Package
}

func (sp *SpecCtx) with(name string, v Value) *SpecCtx {
	n := *sp
	n.bound = make(map[string]Value, len(sp.bound)+1)
	for k, w := range sp.bound {
		n.bound[k] = w
	}
	n.bound[name] = v
	return &n
}

func (sp *SpecCtx) macro(name string) *Macro {
	for _, m := range sp.macros {
		if mc, ok := m[name]; ok {
			return mc
		}
	}
	return nil
}

// ---------- expression evaluation ----------

func (x *Exec) typeOf(e ast.Expr, sp *SpecCtx) types.Type {
	if sp != nil {
		return nil
	}
	return x.info.TypeOf(e)
}

func constToTerm(v constant.Value, t types.Type) *Term {
	switch v.Kind() {
	case constant.Bool:
		return boolLit(constant.BoolVal(v))
	case constant.String:
		return StrLit(constant.StringVal(v))
	case constant.Int, constant.Float:
		isFloat := false
		if t != nil {
			if b, ok := t.Underlying().(*types.Basic); ok && b.Info()&types.IsFloat != 0 {
				isFloat = true
			}
		}
		if v.Kind() == constant.Float && !isFloat {
			// untyped float constant
			isFloat = true
			if b, ok := t.Underlying().(*types.Basic); ok && b.Info()&types.IsInteger != 0 {
				isFloat = false
			}
		}
		r := new(big.Rat)
		switch val := constant.Val(constant.ToFloat(v)).(type) {
		case *big.Rat:
			r.Set(val)
		case *big.Float:
			val.Rat(r)
		default:
			if _, ok := r.SetString(v.ExactString()); !ok {
				f, _ := constant.Float64Val(v)
				r.SetFloat64(f)
			}
		}
		if v.Kind() == constant.Int {
			if bi, ok := constant.Val(v).(*big.Int); ok {
				r.SetInt(bi)
			} else if i64, ok := constant.Val(v).(int64); ok {
				r.SetInt64(i64)
			}
		}
		if isFloat {
			return RealLit(r)
		}
		return &Term{Op: "lit", S: IntS, Rat: r}
	}
	return nil
}

func (x *Exec) eval(e ast.Expr, st *State, sp *SpecCtx) Value {
	if sp == nil {
		if tv, ok := x.info.Types[e]; ok && tv.Value != nil {
			isFloat := tv.Value.Kind() == constant.Float
			if b, ok := tv.Type.Underlying().(*types.Basic); ok && b.Info()&types.IsFloat != 0 {
				isFloat = true
			}
			if !isFloat {
				if t := constToTerm(tv.Value, tv.Type); t != nil {
					return Value{T: tv.Type, Term: t}
				}
			} else {
				// float constants: use the exact source value (go/types records the float64-rounded one);
				// literals are parsed exactly, named constants use their declared exact value, constant
				// expressions are evaluated structurally.
				switch ce := e.(type) {
				case *ast.BasicLit:
					v := x.evalLit(ce)
					v.Term = ToReal(v.Term)
					v.T = tv.Type
					return v
				case *ast.Ident:
					if c, ok := x.info.Uses[ce].(*types.Const); ok {
						if t := constToTerm(c.Val(), types.Typ[types.Float64]); t != nil {
							return Value{T: tv.Type, Term: t}
						}
					}
				case *ast.SelectorExpr:
					if c, ok := x.info.Uses[ce.Sel].(*types.Const); ok {
						if t := constToTerm(c.Val(), types.Typ[types.Float64]); t != nil {
							return Value{T: tv.Type, Term: t}
						}
					}
				case *ast.CallExpr:
					// conversion of a constant, e.g. float64(3)
					if len(ce.Args) == 1 {
						v := x.eval(ce.Args[0], st, sp)
						if v.Term != nil {
							return Value{T: tv.Type, Term: ToReal(v.Term)}
						}
					}
				}
			}
		}
	}
	switch e := e.(type) {
	case *ast.ParenExpr:
		return x.eval(e.X, st, sp)
	case *ast.BasicLit:
		return x.evalLit(e)
	case *ast.Ident:
		return x.evalIdent(e, st, sp)
	case *ast.SelectorExpr, *ast.IndexExpr, *ast.StarExpr:
		if sel, ok := e.(*ast.SelectorExpr); ok && sp != nil {
			// field chain of a spec-bound struct VALUE (result0.DZ.Num of a function that returns a struct)
			if fv, ok := x.boundFieldChain(sel, sp); ok {
				return fv
			}
			if id, ok := sel.X.(*ast.Ident); ok {
				// field of a spec-bound struct value (e.g. the struct key of a quantified map key)
				if bvv, isB := sp.bound[id.Name]; isB && bvv.Fields != nil && bvv.Ptr == nil {
					if fv, has := bvv.Fields[sel.Sel.Name]; has {
						return fv
					}
				}
				if _, shadowed := sp.bound[id.Name]; !shadowed {
					if pn, ok := x.lookupObj(id, sp).(*types.PkgName); ok {
						if c, ok := pn.Imported().Scope().Lookup(sel.Sel.Name).(*types.Const); ok {
							if t := constToTerm(c.Val(), c.Type()); t != nil {
								return Value{T: c.Type(), Term: t}
							}
						}
					}
				}
			}
		}
		if sel, ok := e.(*ast.SelectorExpr); ok && sp == nil {
			// package-qualified function or method value handled by call; constants handled above
			if s, ok := x.info.Selections[sel]; ok && s.Kind() != types.FieldVal {
				return Value{T: x.info.TypeOf(e), Term: x.freshSym("methodvalue", US)}
			}
		}
		if ix, ok := e.(*ast.IndexExpr); ok {
			if v, ok := x.evalMapIndex(ix, st, sp); ok {
				return v
			}
			// indexing an r-value (e.g. macro argument bound to an array value)
			base := x.eval(ix.X, st, sp)
			if base.Term != nil && base.Term.S.K == SArr && base.Ptr == nil {
				i := x.eval(ix.Index, st, sp)
				if i.Term != nil {
					var et types.Type
					if base.T != nil {
						switch u := base.T.Underlying().(type) {
						case *types.Array:
							et = u.Elem()
						case *types.Slice:
							et = u.Elem()
						}
					}
					x.indexSafety(st, base, i.Term, ix)
					return Value{T: et, Term: Select(base.Term, i.Term)}
				}
			}
		}
		loc := x.lval(e, st, sp)
		if loc == nil {
			return x.freshValue("unresolved", x.typeOf(e, sp), st)
		}
		return x.readLoc(st, loc)
	case *ast.UnaryExpr:
		return x.evalUnary(e, st, sp)
	case *ast.BinaryExpr:
		return x.evalBinary(e, st, sp)
	case *ast.CallExpr:
		v := x.evalCall(e, st, sp)
		if sp == nil {
			x.ghostAfterCall(e, st, v)
		}
		return v
	case *ast.CompositeLit:
		return x.evalComposite(e, st, sp)
	case *ast.FuncLit:
		var cu *FuncUnit
		for _, u := range x.prog.Funcs {
			for _, f := range u {
				if f.Lit == e {
					cu = f
				}
			}
		}
		return Value{T: x.typeOf(e, sp), Fn: &Closure{Lit: e, Unit: cu}}
	case *ast.SliceExpr:
		// a substring is a function of the string and its bounds (uninterpreted; -1 = bound not written): two
		// evaluations of s[a:b] on the same s agree, nothing else is known about it
		isStr := false
		if tx := x.typeOf(e.X, sp); tx != nil {
			if bt, ok := tx.Underlying().(*types.Basic); ok && bt.Info()&types.IsString != 0 {
				isStr = true
			}
		} else if sp != nil {
			// spec expression (not type-checked by go/types): decided by the sort of the value
			if v := x.eval(e.X, st, sp); v.Term != nil && v.Term.S.K == SStr {
				isStr = true
			}
		}
		if isStr && !e.Slice3 {
			sv := x.eval(e.X, st, sp)
			lo, hi := IntLit(-1), IntLit(-1)
			okB := true
			if e.Low != nil {
				if v := x.eval(e.Low, st, sp); v.Term != nil && v.Term.S.K == SInt {
					lo = v.Term
				} else {
					okB = false
				}
			}
			if e.High != nil {
				if v := x.eval(e.High, st, sp); v.Term != nil && v.Term.S.K == SInt {
					hi = v.Term
				} else {
					okB = false
				}
			}
			if okB && sv.Term != nil && sv.Term.S.K == SStr {
				rt := x.typeOf(e, sp)
				if rt == nil {
					rt = types.Typ[types.String]
				}
				return Value{T: rt, Term: App("str_slice", StrS, sv.Term, lo, hi)}
			}
		}
		// other slices: abstracted (fresh slice)
		x.abstract("slice expression")
		return x.freshValue("slice", x.typeOf(e, sp), st)
	case *ast.TypeAssertExpr:
		x.eval(e.X, st, sp)
		return x.freshValue("typeassert", x.typeOf(e, sp), st)
	case *ast.KeyValueExpr:
		return x.eval(e.Value, st, sp)
	}
	x.abstract(fmt.Sprintf("expression %T", e))
	return x.freshValue("expr", x.typeOf(e, sp), st)
}

// boundFieldChain: a.b.c where a is bound in the spec context to a struct value (not a reference).
func (x *Exec) boundFieldChain(sel *ast.SelectorExpr, sp *SpecCtx) (Value, bool) {
	var names []string
	var cur ast.Expr = sel
	for {
		s, ok := cur.(*ast.SelectorExpr)
		if !ok {
			break
		}
		names = append([]string{s.Sel.Name}, names...)
		cur = s.X
	}
	id, ok := cur.(*ast.Ident)
	if !ok || len(names) < 2 {
		return Value{}, false
	}
	v, isB := sp.bound[id.Name]
	if !isB || v.Fields == nil || v.Ptr != nil {
		return Value{}, false
	}
	for _, n := range names {
		if v.Fields == nil {
			return Value{}, false
		}
		fv, has := v.Fields[n]
		if !has {
			return Value{}, false
		}
		v = fv
	}
	return v, true
}

func (x *Exec) evalLit(e *ast.BasicLit) Value {
	switch e.Kind {
	case token.INT:
		n := new(big.Int)
		n.SetString(e.Value, 0)
		return Value{Term: BigIntLit(n)}
	case token.FLOAT:
		r := new(big.Rat)
		if _, ok := r.SetString(e.Value); !ok {
			r.SetFloat64(0)
		}
		return Value{Term: RealLit(r)}
	case token.STRING:
		s := constant.StringVal(constant.MakeFromLiteral(e.Value, token.STRING, 0))
		return Value{Term: StrLit(s)}
	case token.CHAR:
		c := constant.MakeFromLiteral(e.Value, token.CHAR, 0)
		n, _ := constant.Int64Val(c)
		return Value{Term: IntLit(n)}
	}
	return Value{Term: Sym("lit?", US)}
}

func (x *Exec) lookupObj(id *ast.Ident, sp *SpecCtx) types.Object {
	if sp == nil {
		if o := x.info.Uses[id]; o != nil {
			return o
		}
		return x.info.Defs[id]
	}
	if sp.scope != nil {
		if _, o := sp.scope.LookupParent(id.Name, sp.pos); o != nil {
			return o
		}
	}
	if sp.pkg != nil {
		if o := sp.pkg.Scope().Lookup(id.Name); o != nil {
			return o
		}
	}
	if o := types.Universe.Lookup(id.Name); o != nil {
		return o
	}
	// a local that was renamed in the source (learned when an anchor was re-bound, anchor.go)
	x.learnRenames()
	if nn, ok := x.renames[id.Name]; ok && sp.scope != nil {
		if _, o := sp.scope.LookupParent(nn, sp.pos); o != nil {
			x.abstract("contract identifier " + id.Name + " bound to the renamed local " + nn)
			return o
		}
	}
	return nil
}

func (x *Exec) evalIdent(id *ast.Ident, st *State, sp *SpecCtx) Value {
	if sp != nil {
		if v, ok := sp.bound[id.Name]; ok {
			return v
		}
		if id.Name == "true" {
			return Value{Term: True}
		}
		if id.Name == "false" {
			return Value{Term: False}
		}
		// ghost variables
		if x.isGhost(id.Name) {
			return x.readLoc(st, x.ghostLoc(id.Name))
		}
		if m := sp.macro(id.Name); m != nil && len(m.Params) == 0 {
			return x.eval(m.Body, st, sp)
		}
	}
	if id.Name == "_" {
		return Value{Term: x.freshSym("blank", US)}
	}
	obj := x.lookupObj(id, sp)
	switch o := obj.(type) {
	case *types.Var:
		return x.readLoc(st, x.varLoc(o))
	case *types.Const:
		if t := constToTerm(o.Val(), o.Type()); t != nil {
			return Value{T: o.Type(), Term: t}
		}
	case *types.Nil:
		return Value{IsNil: true, Term: nilU}
	case *types.Func:
		return Value{T: o.Type(), FnObj: o}
	case nil:
		if sp != nil {
			x.errorf("spec identifier %q cannot be resolved", id.Name)
		}
	}
	return x.freshValue("ident:"+id.Name, x.typeOf(id, sp), st)
}

func (x *Exec) isGhost(name string) bool {
	for _, g := range x.uc.Ghosts {
		if g.Name == name {
			return true
		}
	}
	for _, g := range x.uc.Vars {
		if g.Name == name {
			return true
		}
	}
	return false
}

func ghostType(sortName string) types.Type {
	switch {
	case sortName == "int":
		return types.Typ[types.Int]
	case sortName == "real" || sortName == "float64":
		return types.Typ[types.Float64]
	case sortName == "bool":
		return types.Typ[types.Bool]
	case sortName == "string":
		return types.Typ[types.String]
	case strings.HasPrefix(sortName, "[]"):
		return types.NewArray(ghostType(sortName[2:]), 1<<40)
	}
	return types.Typ[types.Int]
}

func (x *Exec) ghostLoc(name string) *Loc {
	for _, gs := range [][]GhostVar{x.uc.Ghosts, x.uc.Vars} {
		for _, g := range gs {
			if g.Name == name {
				t := ghostType(g.Sort)
				return &Loc{Key: "ghost::" + name, T: t, KeyT: t}
			}
		}
	}
	return nil
}

// lval resolves an addressable expression to a location.
func (x *Exec) lval(e ast.Expr, st *State, sp *SpecCtx) *Loc {
	switch e := e.(type) {
	case *ast.ParenExpr:
		return x.lval(e.X, st, sp)
	case *ast.Ident:
		if sp != nil {
			if v, ok := sp.bound[e.Name]; ok {
				if v.Ptr != nil {
					// a bound pointer used as an l-value base is handled by the selector case
					return nil
				}
				return nil
			}
			if x.isGhost(e.Name) {
				return x.ghostLoc(e.Name)
			}
		}
		if e.Name == "_" {
			return &Loc{Opaque: true}
		}
		if v, ok := x.lookupObj(e, sp).(*types.Var); ok {
			return x.varLoc(v)
		}
		return nil
	case *ast.StarExpr:
		p := x.eval(e.X, st, sp)
		if p.Ptr != nil {
			return p.Ptr
		}
		return &Loc{Opaque: true, T: x.typeOf(e, sp)}
	case *ast.SelectorExpr:
		// package-level variable?
		if id, ok := e.X.(*ast.Ident); ok {
			if pn, ok := x.lookupObj(id, sp).(*types.PkgName); ok {
				if v, ok := pn.Imported().Scope().Lookup(e.Sel.Name).(*types.Var); ok {
					return x.varLoc(v)
				}
				return nil
			}
		}
		var base *Loc
		bv := Value{}
		isBound := false
		if sp != nil {
			if id, ok := e.X.(*ast.Ident); ok {
				if v, ok := sp.bound[id.Name]; ok {
					bv = v
					isBound = true
				}
			}
		}
		if !isBound {
			base = x.lval(e.X, st, sp)
		}
		if base == nil {
			if !isBound {
				bv = x.eval(e.X, st, sp)
			}
			if bv.Ptr != nil {
				base = bv.Ptr
			} else {
				return &Loc{Opaque: true, T: x.typeOf(e, sp)}
			}
		} else if base.T != nil {
			if _, isPtr := base.T.Underlying().(*types.Pointer); isPtr {
				pv := x.readLoc(st, base)
				if pv.Ptr == nil {
					return &Loc{Opaque: true, T: x.typeOf(e, sp)}
				}
				base = pv.Ptr
			}
		}
		if base.Opaque {
			return &Loc{Opaque: true, T: x.fieldType(base.T, e.Sel.Name)}
		}
		ft, path := x.fieldPath(base.T, e.Sel.Name)
		if ft == nil {
			x.errorf("no field %s in %v at %s", e.Sel.Name, base.T, x.prog.pos(e.Pos()))
			return &Loc{Opaque: true}
		}
		if len(base.Idx) > 0 {
			x.abstract("field of array element: " + base.Key + "." + path)
			return &Loc{Opaque: true, T: ft}
		}
		return &Loc{Key: base.Key + "." + path, T: ft, KeyT: ft}
	case *ast.IndexExpr:
		base := x.lval(e.X, st, sp)
		if base == nil {
			bv := x.eval(e.X, st, sp)
			if bv.Ptr != nil {
				base = bv.Ptr
			} else {
				return nil
			}
		}
		if base.Opaque {
			return &Loc{Opaque: true, T: elemType(base.T)}
		}
		if base.T != nil {
			if p, isPtr := base.T.Underlying().(*types.Pointer); isPtr {
				pv := x.readLoc(st, base)
				if pv.Ptr == nil {
					return &Loc{Opaque: true, T: elemType(p.Elem())}
				}
				base = pv.Ptr
			}
		}
		iv := x.eval(e.Index, st, sp)
		if iv.Term == nil || base.T == nil {
			return &Loc{Opaque: true, T: elemType(base.T)}
		}
		switch u := base.T.Underlying().(type) {
		case *types.Array:
			x.indexSafetyLen(st, iv.Term, IntLit(u.Len()), e)
		case *types.Slice:
			bvv := x.readLoc(st, base)
			if bvv.Len != nil {
				x.indexSafetyLen(st, iv.Term, bvv.Len, e)
			}
		case *types.Map:
			// map element as l-value (assignment m[k] = v)
		case *types.Basic:
			return &Loc{Opaque: true, T: types.Typ[types.Byte]}
		}
		idx := append(append([]*Term{}, base.Idx...), iv.Term)
		return &Loc{Key: base.Key, KeyT: base.keyT(), Idx: idx, T: elemType(base.T)}
	}
	return nil
}

func (l *Loc) keyT() types.Type {
	if l.KeyT != nil {
		return l.KeyT
	}
	if len(l.Idx) == 0 {
		return l.T
	}
	return nil
}

func elemType(t types.Type) types.Type {
	if t == nil {
		return nil
	}
	switch u := t.Underlying().(type) {
	case *types.Array:
		return u.Elem()
	case *types.Slice:
		return u.Elem()
	case *types.Map:
		return u.Elem()
	case *types.Pointer:
		return elemType(u.Elem())
	}
	return nil
}

func (x *Exec) fieldType(t types.Type, name string) types.Type {
	ft, _ := x.fieldPath(t, name)
	return ft
}

// fieldPath finds field name in struct type t (through embedded structs), returning type and dotted path.
func (x *Exec) fieldPath(t types.Type, name string) (types.Type, string) {
	if t == nil {
		return nil, ""
	}
	if p, ok := t.Underlying().(*types.Pointer); ok {
		t = p.Elem()
	}
	obj, index, _ := types.LookupFieldOrMethod(t, true, x.pkg, name)
	v, ok := obj.(*types.Var)
	if !ok {
		// unexported field of another package
		if s, ok := t.Underlying().(*types.Struct); ok {
			for i := 0; i < s.NumFields(); i++ {
				if s.Field(i).Name() == name {
					return s.Field(i).Type(), name
				}
			}
		}
		return nil, ""
	}
	// build path through embedded fields
	var parts []string
	cur := t
	for _, i := range index {
		if p, ok := cur.Underlying().(*types.Pointer); ok {
			cur = p.Elem()
		}
		s, ok := cur.Underlying().(*types.Struct)
		if !ok {
			break
		}
		f := s.Field(i)
		parts = append(parts, f.Name())
		cur = f.Type()
	}
	return v.Type(), strings.Join(parts, ".")
}

func (x *Exec) evalMapIndex(e *ast.IndexExpr, st *State, sp *SpecCtx) (Value, bool) {
	var mt *types.Map
	if sp == nil {
		t := x.info.TypeOf(e.X)
		if t == nil {
			return Value{}, false
		}
		m, ok := t.Underlying().(*types.Map)
		if !ok {
			return Value{}, false
		}
		mt = m
	}
	base := x.eval(e.X, st, sp)
	if mt == nil {
		if base.T == nil {
			return Value{}, false
		}
		m, ok := base.T.Underlying().(*types.Map)
		if !ok {
			return Value{}, false
		}
		mt = m
	}
	k := x.eval(e.Index, st, sp)
	if base.Term == nil || k.Term == nil || base.Term.S.K != SArr {
		return x.freshValue("mapelem", mt.Elem(), st), true
	}
	kt := k.Term
	if base.Term.S.Idx.K == SReal {
		kt = ToReal(kt)
	}
	val := Select(base.Term, kt)
	if base.Dom != nil {
		// absent key yields the zero value
		val = Ite(Select(base.Dom, kt), val, zeroTerm(val.S))
	}
	res := Value{T: mt.Elem(), Term: val}
	if base.Dom2 != nil {
		res.Dom = Select(base.Dom2, kt)
	}
	return res.withOK(base.Dom, kt), true
}

// withOK stashes the comma-ok bit in Tuple[1] for v, ok := m[k]
func (v Value) withOK(dom, k *Term) Value {
	if dom == nil {
		return v
	}
	okv := Value{T: types.Typ[types.Bool], Term: Select(dom, k)}
	first := v
	v.Tuple = []Value{first, okv}
	return v
}

func (x *Exec) indexSafety(st *State, base Value, idx *Term, e ast.Expr) {
	if base.T == nil {
		return
	}
	if a, ok := base.T.Underlying().(*types.Array); ok {
		x.indexSafetyLen(st, idx, IntLit(a.Len()), e)
	}
}

func (x *Exec) indexSafetyLen(st *State, idx, length *Term, e ast.Expr) {
	tags, on := x.safetyOn("index")
	if !on || x.specDepth > 0 {
		return
	}
	goal := And(Ge(idx, IntLit(0)), Lt(idx, length))
	if goal.IsTrue() {
		return
	}
	x.safetyCount["index"]++
	x.assert(st, goal, "safety-index", fmt.Sprintf("%s/safety-index:%s", x.uc.ID(), x.posKey(e.Pos())), tags, e.Pos(), "index in range: "+x.src(e))
}

func (x *Exec) evalUnary(e *ast.UnaryExpr, st *State, sp *SpecCtx) Value {
	switch e.Op {
	case token.AND:
		if cl, ok := e.X.(*ast.CompositeLit); ok {
			v := x.evalComposite(cl, st, sp)
			x.fresh++
			key := fmt.Sprintf("new!%d", x.fresh)
			loc := &Loc{Key: key, T: v.T, KeyT: v.T}
			x.keyTypes[key] = v.T
			x.writeLoc(st, loc, v)
			return Value{T: x.typeOf(e, sp), Ptr: loc}
		}
		loc := x.lval(e.X, st, sp)
		if loc == nil {
			return Value{T: x.typeOf(e, sp), Ptr: &Loc{Opaque: true}}
		}
		return Value{T: x.typeOf(e, sp), Ptr: loc}
	case token.SUB:
		v := x.eval(e.X, st, sp)
		if v.Term == nil {
			return x.freshValue("neg", x.typeOf(e, sp), st)
		}
		return Value{T: v.T, Term: Neg(v.Term)}
	case token.ADD:
		return x.eval(e.X, st, sp)
	case token.NOT:
		v := x.eval(e.X, st, sp)
		if v.Term == nil || v.Term.S.K != SBool {
			return Value{T: types.Typ[types.Bool], Term: x.freshSym("not", BoolS)}
		}
		return Value{T: v.T, Term: Not(v.Term)}
	case token.ARROW:
		x.eval(e.X, st, sp)
		x.abstract("channel receive")
		return x.freshValue("recv", x.typeOf(e, sp), st)
	}
	x.abstract("unary " + e.Op.String())
	return x.freshValue("unary", x.typeOf(e, sp), st)
}

func (x *Exec) evalBinary(e *ast.BinaryExpr, st *State, sp *SpecCtx) Value {
	boolT := types.Typ[types.Bool]
	if e.Op == token.LAND || e.Op == token.LOR {
		a := x.eval(e.X, st, sp)
		at := a.Term
		if at == nil || at.S.K != SBool {
			at = x.freshSym("cond", BoolS)
		}
		saved := st.pc
		if e.Op == token.LAND {
			st.pc = And(st.pc, at)
		} else {
			st.pc = And(st.pc, Not(at))
		}
		b := x.eval(e.Y, st, sp)
		if !st.pc.IsFalse() || saved.IsFalse() {
			st.pc = saved
		} else {
			st.pc = saved
		}
		bt := b.Term
		if bt == nil || bt.S.K != SBool {
			bt = x.freshSym("cond", BoolS)
		}
		if e.Op == token.LAND {
			return Value{T: boolT, Term: And(at, bt)}
		}
		return Value{T: boolT, Term: Or(at, bt)}
	}
	a := x.eval(e.X, st, sp)
	b := x.eval(e.Y, st, sp)
	rt := x.typeOf(e, sp)
	if rt == nil {
		rt = a.T
		if rt == nil {
			rt = b.T
		}
	}
	// nil comparisons
	if e.Op == token.EQL || e.Op == token.NEQ {
		var r *Term
		switch {
		case a.Fields != nil && b.Fields != nil:
			var cs []*Term
			for k, fa := range a.Fields {
				if fb, ok := b.Fields[k]; ok && fa.Term != nil && fb.Term != nil {
					cs = append(cs, Eq(fa.Term, fb.Term))
				}
			}
			r = And(cs...)
		case a.IsNil || b.IsNil:
			o := a
			if a.IsNil {
				o = b
			}
			switch {
			case o.IsNil:
				r = True
			case o.Ptr != nil:
				if o.Ptr.Opaque {
					r = x.freshSym("isnil", BoolS)
				} else {
					r = False
				}
			case o.Term != nil && o.Term.S.K == SU:
				r = Eq(o.Term, nilU)
			case o.Dom != nil:
				r = x.mapNil(o)
			case o.Len != nil:
				r = x.freshSym("isnil", BoolS)
			default:
				r = x.freshSym("isnil", BoolS)
			}
		case a.Term != nil && b.Term != nil && compatible(a.Term.S, b.Term.S):
			r = Eq(a.Term, b.Term)
		default:
			r = x.freshSym("eq", BoolS)
		}
		if e.Op == token.NEQ {
			r = Not(r)
		}
		return Value{T: boolT, Term: r}
	}
	if a.Term == nil || b.Term == nil {
		return x.freshValue("binop", rt, st)
	}
	at, bt := a.Term, b.Term
	numeric := func(t *Term) bool { return t.S.K == SInt || t.S.K == SReal }
	switch e.Op {
	case token.LSS, token.LEQ, token.GTR, token.GEQ:
		if !numeric(at) || !numeric(bt) {
			return Value{T: boolT, Term: x.freshSym("cmp", BoolS)}
		}
		switch e.Op {
		case token.LSS:
			return Value{T: boolT, Term: Lt(at, bt)}
		case token.LEQ:
			return Value{T: boolT, Term: Le(at, bt)}
		case token.GTR:
			return Value{T: boolT, Term: Gt(at, bt)}
		default:
			return Value{T: boolT, Term: Ge(at, bt)}
		}
	case token.ADD:
		if at.S.K == SStr {
			return Value{T: rt, Term: App("str_concat", StrS, at, bt)}
		}
		if numeric(at) && numeric(bt) {
			return Value{T: rt, Term: Add(at, bt)}
		}
	case token.SUB:
		if numeric(at) && numeric(bt) {
			r := Sub(at, bt)
			if isUnsigned(rt) {
				x.uintSafety(st, r, e)
			}
			return Value{T: rt, Term: r}
		}
	case token.MUL:
		if numeric(at) && numeric(bt) {
			return Value{T: rt, Term: Mul(at, bt)}
		}
	case token.QUO:
		if numeric(at) && numeric(bt) {
			if at.S.K == SInt && bt.S.K == SInt {
				x.divSafety(st, bt, e)
				return Value{T: rt, Term: IDiv(at, bt)}
			}
			x.divSafety(st, bt, e)
			return Value{T: rt, Term: RDiv(at, bt)}
		}
	case token.REM:
		if at.S.K == SInt && bt.S.K == SInt {
			x.divSafety(st, bt, e)
			return Value{T: rt, Term: IMod(at, bt)}
		}
	}
	x.abstract("binary " + e.Op.String())
	return x.freshValue("binop", rt, st)
}

func compatible(a, b *Sort) bool {
	if a.Eq(b) {
		return true
	}
	return (a.K == SInt || a.K == SReal) && (b.K == SInt || b.K == SReal)
}

func (x *Exec) safetyOn(kind string) ([]string, bool) {
	if x.uc == nil || x.inlineDepth > 0 && kind != "div" {
		if x.uc == nil {
			return nil, false
		}
	}
	tags, ok := x.uc.Safety[kind]
	if ok && !on(tags) {
		return tags, false
	}
	return tags, ok
}

func (x *Exec) posKey(p token.Pos) string {
	// stable name of a source position inside the unit: enclosing function + ordinal of the
	// syntactic construct is fragile; we use line offsets relative to the function start.
	ps := x.prog.Fset.Position(p)
	fs := x.prog.Fset.Position(x.curFunc[len(x.curFunc)-1].Body.Pos())
	k := fmt.Sprintf("L%d.%d", ps.Line-fs.Line, ps.Column)
	if len(x.curFunc) > 1 {
		k = x.curFunc[len(x.curFunc)-1].Name + "." + k
	}
	return k
}

func (x *Exec) src(n ast.Node) string {
	ps := x.prog.Fset.Position(n.Pos())
	pe := x.prog.Fset.Position(n.End())
	data := x.fileData(ps.Filename)
	if data == nil || pe.Offset > len(data) || ps.Offset > pe.Offset {
		return ""
	}
	return string(data[ps.Offset:pe.Offset])
}

func (x *Exec) divSafety(st *State, den *Term, e ast.Expr) {
	tags, on := x.safetyOn("div")
	if !on || x.specDepth > 0 {
		return
	}
	var zero *Term
	if den.S.K == SInt {
		zero = IntLit(0)
	} else {
		zero = RealLitF(0)
	}
	goal := Ne(den, zero)
	if goal.IsTrue() {
		return
	}
	x.safetyCount["div"]++
	x.assert(st, goal, "safety-div", fmt.Sprintf("%s/safety-div:%s", x.uc.ID(), x.posKey(e.Pos())), tags, e.Pos(), "divisor non-zero: "+x.src(e))
}

func (x *Exec) uintSafety(st *State, r *Term, e ast.Expr) {
	tags, on := x.safetyOn("uint")
	if !on || x.specDepth > 0 {
		return
	}
	goal := Ge(r, IntLit(0))
	if goal.IsTrue() {
		return
	}
	x.assert(st, goal, "safety-uint", fmt.Sprintf("%s/safety-uint:%s", x.uc.ID(), x.posKey(e.Pos())), tags, e.Pos(), "unsigned subtraction does not wrap: "+x.src(e))
}

func (x *Exec) evalComposite(e *ast.CompositeLit, st *State, sp *SpecCtx) Value {
	t := x.typeOf(e, sp)
	if t == nil {
		return x.freshValue("composite", nil, st)
	}
	switch u := t.Underlying().(type) {
	case *types.Struct:
		v := x.zeroValue(t)
		for i, el := range e.Elts {
			if kv, ok := el.(*ast.KeyValueExpr); ok {
				if id, ok := kv.Key.(*ast.Ident); ok {
					v.Fields[id.Name] = x.eval(kv.Value, st, sp)
				}
			} else if i < u.NumFields() {
				v.Fields[u.Field(i).Name()] = x.eval(el, st, sp)
			}
		}
		return v
	case *types.Array, *types.Slice:
		s := sortOf(t)
		cur := zeroTerm(s)
		idx := int64(0)
		ok := true
		for _, el := range e.Elts {
			val := el
			if kv, isKV := el.(*ast.KeyValueExpr); isKV {
				if tv, has := x.info.Types[kv.Key]; has && tv.Value != nil {
					if n, exact := constant.Int64Val(tv.Value); exact {
						idx = n
					}
				}
				val = kv.Value
			}
			ev := x.eval(val, st, sp)
			if ev.Term == nil || !compatible(ev.Term.S, s.Elem) && !ev.Term.S.Eq(s.Elem) {
				ok = false
				break
			}
			cur = Store(cur, IntLit(idx), ev.Term)
			idx++
		}
		if !ok {
			return x.freshValue("composite", t, st)
		}
		v := Value{T: t, Term: cur}
		if _, isSl := u.(*types.Slice); isSl {
			v.Len = IntLit(idx)
		}
		return v
	case *types.Map:
		v := x.zeroValue(t)
		if len(e.Elts) > 0 {
			x.abstract("map literal with elements")
			return x.freshValue("maplit", t, st)
		}
		return v
	}
	return x.freshValue("composite", t, st)
}

// ---------- statements ----------

type Jump struct {
	Label string
	St    *State
}

type Ret struct {
	St   *State
	Vals []Value
}

type Outcomes struct {
	Normal *State
	Breaks []Jump
	Conts  []Jump
	Rets   []Ret
	Gotos  []Jump // forward goto to a label of an enclosing statement list
}

func (o *Outcomes) absorb(p Outcomes) {
	o.Gotos = append(o.Gotos, p.Gotos...)
	o.Breaks = append(o.Breaks, p.Breaks...)
	o.Conts = append(o.Conts, p.Conts...)
	o.Rets = append(o.Rets, p.Rets...)
}

func (x *Exec) execBlock(stmts []ast.Stmt, st *State) Outcomes {
	var out Outcomes
	cur := st
	for i := 0; i < len(stmts); i++ {
		s := stmts[i]
		if (cur == nil || cur.pc.IsFalse()) && len(out.Gotos) > 0 {
			// the normal flow has ended but a forward goto may still join at a label further down this list
			found := -1
			for k := i; k < len(stmts) && found < 0; k++ {
				if ls, ok := stmts[k].(*ast.LabeledStmt); ok {
					for _, j := range out.Gotos {
						if j.Label == ls.Label.Name {
							found = k
						}
					}
				}
			}
			if found >= 0 {
				i = found
				s = stmts[i]
				cur = nil
			}
		}
		if _, isLabel := s.(*ast.LabeledStmt); !isLabel || len(out.Gotos) == 0 {
			if cur == nil || cur.pc.IsFalse() {
				cur = nil
				break
			}
		}
		if x.inlineDepth == 0 && len(x.subRegions) > 0 {
			if sr := x.subRegions[s]; sr != nil && i+len(sr.stmts) <= len(stmts) && stmts[i+len(sr.stmts)-1] == sr.stmts[len(sr.stmts)-1] {
				o := x.execSubRegion(sr, cur)
				out.absorb(o)
				cur = o.Normal
				i += len(sr.stmts) - 1
				continue
			}
		}
		if ls, ok := s.(*ast.LabeledStmt); ok && len(out.Gotos) > 0 {
			// forward gotos to this label join the normal flow here
			var rest []Jump
			joined := []*State{}
			if cur != nil && !cur.pc.IsFalse() {
				joined = append(joined, cur)
			}
			for _, j := range out.Gotos {
				if j.Label == ls.Label.Name {
					joined = append(joined, j.St)
				} else {
					rest = append(rest, j)
				}
			}
			out.Gotos = rest
			cur = x.mergeAll(joined)
			if cur == nil {
				break
			}
		}
		o := x.execStmt(s, cur, "")
		out.absorb(o)
		cur = o.Normal
	}
	out.Normal = cur
	return out
}

func (x *Exec) execStmt(s ast.Stmt, st *State, label string) Outcomes {
	hooks := x.uc != nil && len(x.uc.AtStmts) > 0 && x.inlineDepth == 0
	var txt string
	if hooks {
		if _, isBlock := s.(*ast.BlockStmt); isBlock {
			hooks = false
		} else {
			txt = normWS(x.src(s))
			x.runStmtHooks(s, txt, st, true)
		}
	}
	o := x.execStmt1(s, st, label)
	if hooks && o.Normal != nil {
		x.runStmtHooks(s, txt, o.Normal, false)
	}
	return o
}

// mapNil: nil-ness of a map value is a function of its key set (the same map value is nil or not, consistently), and a
// nil map has no keys. A map returned by make may or may not satisfy it (over-approximation: make yields non-nil).
func (x *Exec) mapNil(v Value) *Term {
	r := App("uf_mapnil", BoolS, v.Dom)
	x.assumeGlobal(Implies(r, Eq(v.Dom, ConstArr(v.Dom.S, False))), "nil map has no keys")
	return r
}

func (x *Exec) runStmtHooks(s ast.Stmt, txt string, st *State, before bool) {
	for _, as := range x.uc.AtStmts {
		if as.Before != before || !x.anchorMatches(s, as.Anchor) {
			continue
		}
		as.Used++
		pos := s.End()
		if before {
			pos = s.Pos()
		}
		sp := x.specCtxAt(pos, nil)
		if as.Assert != nil {
			if !on(as.Assert.Tags) {
				continue
			}
			g := x.specBool(as.Assert, st, sp)
			if as.Assert.Kind == "assume" {
				// an explicit, listed assumption (e.g. about the content of a parameter table read here)
				x.trustedUsed[fmt.Sprintf("%s: assumed at %s: %s (%s)", x.uc.ID(), x.prog.pos(s.Pos()), as.Assert.Text, as.Assert.Name)] = true
				x.assume(st, g, "assumed:"+as.Assert.Name)
				continue
			}
			x.assert(st, g, "assert", fmt.Sprintf("%s/assert:%s", x.uc.ID(), as.Assert.Name), as.Assert.Tags, s.Pos(), as.Assert.Text)
			continue
		}
		loc := x.ghostLoc(as.LHS)
		if loc == nil {
			x.errorf("ghost variable %s not declared", as.LHS)
			continue
		}
		x.specDepth++
		v := x.eval(as.RHS, st, sp)
		x.specDepth--
		x.writeLoc(st, loc, v)
	}
}

func (x *Exec) execStmt1(s ast.Stmt, st *State, label string) Outcomes {
	switch s := s.(type) {
	case *ast.BlockStmt:
		return x.execBlock(s.List, st)
	case *ast.EmptyStmt:
		return Outcomes{Normal: st}
	case *ast.ExprStmt:
		x.eval(s.X, st, nil)
		return Outcomes{Normal: st}
	case *ast.AssignStmt:
		x.execAssign(s, st)
		return Outcomes{Normal: st}
	case *ast.IncDecStmt:
		loc := x.lval(s.X, st, nil)
		if loc == nil {
			return Outcomes{Normal: st}
		}
		v := x.readLoc(st, loc)
		if v.Term != nil && (v.Term.S.K == SInt || v.Term.S.K == SReal) {
			one := IntLit(1)
			if s.Tok == token.INC {
				v.Term = Add(v.Term, one)
			} else {
				v.Term = Sub(v.Term, one)
				if isUnsigned(loc.T) {
					x.uintSafety(st, v.Term, s.X)
				}
			}
		}
		x.writeLoc(st, loc, v)
		return Outcomes{Normal: st}
	case *ast.DeclStmt:
		gd, ok := s.Decl.(*ast.GenDecl)
		if !ok || gd.Tok != token.VAR {
			return Outcomes{Normal: st}
		}
		for _, spec := range gd.Specs {
			vs := spec.(*ast.ValueSpec)
			if len(vs.Values) == 0 {
				for _, n := range vs.Names {
					if obj, ok := x.info.Defs[n].(*types.Var); ok {
						x.writeLoc(st, x.varLoc(obj), x.zeroValue(obj.Type()))
					}
				}
				continue
			}
			var vals []Value
			if len(vs.Values) == 1 && len(vs.Names) > 1 {
				v := x.eval(vs.Values[0], st, nil)
				vals = v.Tuple
			} else {
				for _, e := range vs.Values {
					vals = append(vals, x.eval(e, st, nil))
				}
			}
			for i, n := range vs.Names {
				if obj, ok := x.info.Defs[n].(*types.Var); ok && i < len(vals) {
					x.writeLoc(st, x.varLoc(obj), x.convertTo(vals[i], obj.Type()))
				}
			}
		}
		return Outcomes{Normal: st}
	case *ast.IfStmt:
		return x.execIf(s, st)
	case *ast.ForStmt:
		return x.execFor(s, st, label)
	case *ast.RangeStmt:
		return x.execRange(s, st, label)
	case *ast.SwitchStmt:
		return x.execSwitch(s, st, label)
	case *ast.TypeSwitchStmt:
		return x.execTypeSwitch(s, st, label)
	case *ast.LabeledStmt:
		return x.execStmt(s.Stmt, st, s.Label.Name)
	case *ast.BranchStmt:
		lbl := ""
		if s.Label != nil {
			lbl = s.Label.Name
		}
		switch s.Tok {
		case token.BREAK:
			return Outcomes{Breaks: []Jump{{lbl, st}}}
		case token.CONTINUE:
			return Outcomes{Conts: []Jump{{lbl, st}}}
		}
		if s.Tok == token.GOTO && lbl != "" {
			// forward goto: the path leaves the normal flow and joins it again at the label (execBlock of the list that
			// holds the labelled statement); a goto whose label is never met (backward jump) ends the path - listed
			x.abstract("goto " + lbl + " (modelled as a forward jump to its label)")
			return Outcomes{Gotos: []Jump{{lbl, st}}}
		}
		x.abstract("goto/fallthrough")
		return Outcomes{Normal: st}
	case *ast.ReturnStmt:
		var vals []Value
		if len(s.Results) == 1 {
			v := x.eval(s.Results[0], st, nil)
			if v.Tuple != nil && x.resultCount() > 1 {
				vals = v.Tuple
			} else {
				vals = []Value{v}
			}
		} else {
			for _, r := range s.Results {
				vals = append(vals, x.eval(r, st, nil))
			}
		}
		if st.pc.IsFalse() {
			return Outcomes{}
		}
		return Outcomes{Rets: []Ret{{St: st, Vals: vals}}}
	case *ast.DeferStmt:
		x.abstract("defer " + x.src(s.Call.Fun))
		return Outcomes{Normal: st}
	case *ast.GoStmt:
		x.ghostAtCall(s.Call, st)
		for _, a := range s.Call.Args {
			x.eval(a, st, nil)
		}
		x.abstract("go statement (sequential ghost event only)")
		return Outcomes{Normal: st}
	case *ast.SendStmt:
		x.eval(s.Value, st, nil)
		x.ghostSend(s, st)
		return Outcomes{Normal: st}
	case *ast.SelectStmt:
		return x.execSelect(s, st, label)
	}
	x.abstract(fmt.Sprintf("statement %T", s))
	return Outcomes{Normal: st}
}

func (x *Exec) resultCount() int {
	u := x.curFunc[len(x.curFunc)-1]
	if u.Type.Results == nil {
		return 0
	}
	n := 0
	for _, f := range u.Type.Results.List {
		if len(f.Names) == 0 {
			n++
		} else {
			n += len(f.Names)
		}
	}
	return n
}

func (x *Exec) convertTo(v Value, t types.Type) Value {
	if t == nil || v.Term == nil {
		if v.T == nil {
			v.T = t
		}
		return v
	}
	s := sortOf(t)
	if s.K == SReal && v.Term.S.K == SInt {
		v.Term = ToReal(v.Term)
	}
	v.T = t
	return v
}

func (x *Exec) execAssign(s *ast.AssignStmt, st *State) {
	// evaluate RHS
	var vals []Value
	if len(s.Rhs) == 1 && len(s.Lhs) > 1 {
		v := x.eval(s.Rhs[0], st, nil)
		vals = v.Tuple
		if len(vals) < len(s.Lhs) {
			// comma-ok forms on opaque things
			vals = nil
			tt := x.info.TypeOf(s.Rhs[0])
			if tup, ok := tt.(*types.Tuple); ok {
				for i := 0; i < tup.Len(); i++ {
					vals = append(vals, x.freshValue("tuple", tup.At(i).Type(), st))
				}
			}
			for len(vals) < len(s.Lhs) {
				vals = append(vals, Value{})
			}
		}
	} else {
		for _, r := range s.Rhs {
			v := x.eval(r, st, nil)
			if len(v.Tuple) == 2 && len(s.Lhs) == 1 {
				v = v.Tuple[0] // map read in single-value context
			}
			vals = append(vals, v)
		}
	}
	// locations first (Go evaluates index operands before assigning)
	locs := make([]*Loc, len(s.Lhs))
	for i, l := range s.Lhs {
		if id, ok := l.(*ast.Ident); ok && id.Name == "_" {
			continue
		}
		if s.Tok == token.DEFINE {
			if id, ok := l.(*ast.Ident); ok {
				if obj, ok := x.info.Defs[id].(*types.Var); ok {
					locs[i] = x.varLoc(obj)
					continue
				}
			}
		}
		if ix, ok := l.(*ast.IndexExpr); ok {
			if t := x.info.TypeOf(ix.X); t != nil {
				if _, isMap := t.Underlying().(*types.Map); isMap {
					x.mapStore(ix, vals[i], st)
					continue
				}
			}
		}
		locs[i] = x.lval(l, st, nil)
		if locs[i] == nil {
			x.abstract("assignment target " + x.src(l))
		}
	}
	for i, loc := range locs {
		if loc == nil || i >= len(vals) {
			continue
		}
		v := vals[i]
		if s.Tok != token.ASSIGN && s.Tok != token.DEFINE {
			cur := x.readLoc(st, loc)
			v = x.compound(s.Tok, cur, v, st, s, loc.T)
		}
		if v.T == nil && v.Term == nil && v.Ptr == nil && v.Fields == nil && v.Fn == nil {
			v = x.freshValue("assign", loc.T, st)
		}
		x.writeLoc(st, loc, x.convertTo(v, loc.T))
	}
}

func (x *Exec) mapStore(ix *ast.IndexExpr, v Value, st *State) {
	loc := x.lval(ix.X, st, nil)
	k := x.eval(ix.Index, st, nil)
	if loc == nil || loc.Opaque || k.Term == nil || len(loc.Idx) > 0 {
		x.abstract("map store")
		if loc != nil && !loc.Opaque {
			x.havocPrefix(st, loc.Key)
		}
		return
	}
	m := x.readLoc(st, loc)
	if m.Term == nil || m.Dom == nil || v.Term == nil {
		x.havocPrefix(st, loc.Key)
		return
	}
	kt := k.Term
	if m.Term.S.Idx.K == SReal {
		kt = ToReal(kt)
	}
	val := v.Term
	if !val.S.Eq(m.Term.S.Elem) && !(val.S.K == SInt && m.Term.S.Elem.K == SReal) {
		x.havocPrefix(st, loc.Key)
		return
	}
	nm := Value{T: m.T, Term: Store(m.Term, kt, val), Dom: Store(m.Dom, kt, True)}
	x.writeLoc(st, loc, nm)
}

func (x *Exec) compound(tok token.Token, cur, v Value, st *State, n ast.Node, t types.Type) Value {
	if cur.Term == nil || v.Term == nil {
		return x.freshValue("compound", t, st)
	}
	a, b := cur.Term, v.Term
	num := func(t *Term) bool { return t.S.K == SInt || t.S.K == SReal }
	switch tok {
	case token.ADD_ASSIGN:
		if a.S.K == SStr {
			return Value{T: t, Term: App("str_concat", StrS, a, b)}
		}
		if num(a) && num(b) {
			return Value{T: t, Term: Add(a, b)}
		}
	case token.SUB_ASSIGN:
		if num(a) && num(b) {
			return Value{T: t, Term: Sub(a, b)}
		}
	case token.MUL_ASSIGN:
		if num(a) && num(b) {
			return Value{T: t, Term: Mul(a, b)}
		}
	case token.QUO_ASSIGN:
		if num(a) && num(b) {
			if a.S.K == SInt && b.S.K == SInt {
				return Value{T: t, Term: IDiv(a, b)}
			}
			return Value{T: t, Term: RDiv(a, b)}
		}
	case token.REM_ASSIGN:
		if a.S.K == SInt && b.S.K == SInt {
			return Value{T: t, Term: IMod(a, b)}
		}
	}
	x.abstract("compound assignment " + tok.String())
	return x.freshValue("compound", t, st)
}

func (x *Exec) condTerm(e ast.Expr, st *State) *Term {
	v := x.eval(e, st, nil)
	if v.Term == nil || v.Term.S.K != SBool {
		return x.freshSym("cond", BoolS)
	}
	return v.Term
}

func (x *Exec) branch(st *State, c *Term) (*State, *State) {
	tc := And(st.pc, c)
	fc := And(st.pc, Not(c))
	var a, b *State
	if !tc.IsFalse() {
		a = st.clone()
		a.pc = x.nameTerm("pc", tc)
	}
	if !fc.IsFalse() {
		b = st.clone()
		b.pc = x.nameTerm("pc", fc)
	}
	return a, b
}

func (x *Exec) execIf(s *ast.IfStmt, st *State) Outcomes {
	var out Outcomes
	if s.Init != nil {
		o := x.execStmt(s.Init, st, "")
		out.absorb(o)
		st = o.Normal
		if st == nil {
			return out
		}
	}
	c := x.condTerm(s.Cond, st)
	if st.pc.IsFalse() {
		return out
	}
	a, b := x.branch(st, c)
	var na, nb *State
	if a != nil {
		o := x.execBlock(s.Body.List, a)
		out.absorb(o)
		na = o.Normal
	}
	if b != nil {
		if s.Else != nil {
			o := x.execStmt(s.Else, b, "")
			out.absorb(o)
			nb = o.Normal
		} else {
			nb = b
		}
	}
	out.Normal = x.merge(na, nb)
	return out
}

func (x *Exec) execSwitch(s *ast.SwitchStmt, st *State, label string) Outcomes {
	var out Outcomes
	if s.Init != nil {
		o := x.execStmt(s.Init, st, "")
		out.absorb(o)
		st = o.Normal
		if st == nil {
			return out
		}
	}
	var tag *Value
	if s.Tag != nil {
		v := x.eval(s.Tag, st, nil)
		tag = &v
	}
	var normals []*State
	rest := st
	var deflt *ast.CaseClause
	for _, cc := range s.Body.List {
		clause := cc.(*ast.CaseClause)
		if clause.List == nil {
			deflt = clause
			continue
		}
		if rest == nil {
			break
		}
		var conds []*Term
		for _, ce := range clause.List {
			if tag == nil {
				conds = append(conds, x.condTerm(ce, rest))
			} else {
				cv := x.eval(ce, rest, nil)
				if tag.Term != nil && cv.Term != nil && compatible(tag.Term.S, cv.Term.S) {
					conds = append(conds, Eq(tag.Term, cv.Term))
				} else {
					conds = append(conds, x.freshSym("case", BoolS))
				}
			}
		}
		c := Or(conds...)
		a, b := x.branch(rest, c)
		if a != nil {
			o := x.execBlock(clause.Body, a)
			out.Rets = append(out.Rets, o.Rets...)
			out.Conts = append(out.Conts, o.Conts...)
			for _, br := range o.Breaks {
				if br.Label == "" || br.Label == label {
					normals = append(normals, br.St)
				} else {
					out.Breaks = append(out.Breaks, br)
				}
			}
			if o.Normal != nil {
				normals = append(normals, o.Normal)
			}
		}
		rest = b
	}
	if rest != nil {
		if deflt != nil {
			o := x.execBlock(deflt.Body, rest)
			out.Rets = append(out.Rets, o.Rets...)
			out.Conts = append(out.Conts, o.Conts...)
			for _, br := range o.Breaks {
				if br.Label == "" || br.Label == label {
					normals = append(normals, br.St)
				} else {
					out.Breaks = append(out.Breaks, br)
				}
			}
			if o.Normal != nil {
				normals = append(normals, o.Normal)
			}
		} else {
			normals = append(normals, rest)
		}
	}
	out.Normal = x.mergeAll(normals)
	return out
}

func (x *Exec) execTypeSwitch(s *ast.TypeSwitchStmt, st *State, label string) Outcomes {
	// every clause is possible; the bound variable is opaque
	var out Outcomes
	var normals []*State
	x.abstract("type switch (all clauses possible)")
	hasDefault := false
	for _, cc := range s.Body.List {
		clause := cc.(*ast.CaseClause)
		if clause.List == nil {
			hasDefault = true
		}
		c := x.freshSym("typecase", BoolS)
		a, _ := x.branch(st, c)
		if a == nil {
			continue
		}
		o := x.execBlock(clause.Body, a)
		out.Rets = append(out.Rets, o.Rets...)
		out.Conts = append(out.Conts, o.Conts...)
		for _, br := range o.Breaks {
			if br.Label == "" || br.Label == label {
				normals = append(normals, br.St)
			} else {
				out.Breaks = append(out.Breaks, br)
			}
		}
		if o.Normal != nil {
			normals = append(normals, o.Normal)
		}
	}
	if !hasDefault {
		normals = append(normals, st)
	}
	// the clause conditions are independent fresh symbols, so the merged pcs are not exclusive;
	// merging by ite on the first pc is still a sound over-approximation of "one of them ran".
	out.Normal = x.mergeAll(normals)
	return out
}

func (x *Exec) execSelect(s *ast.SelectStmt, st *State, label string) Outcomes {
	var out Outcomes
	var normals []*State
	x.abstract("select (every ready case possible, received values arbitrary)")
	for _, cc := range s.Body.List {
		clause := cc.(*ast.CommClause)
		c := x.freshSym("selcase", BoolS)
		a, _ := x.branch(st, c)
		if a == nil {
			continue
		}
		if clause.Comm != nil {
			o := x.execStmt(clause.Comm, a, "")
			a = o.Normal
			if a == nil {
				continue
			}
		}
		o := x.execBlock(clause.Body, a)
		out.Rets = append(out.Rets, o.Rets...)
		out.Conts = append(out.Conts, o.Conts...)
		for _, br := range o.Breaks {
			if br.Label == "" || br.Label == label {
				normals = append(normals, br.St)
			} else {
				out.Breaks = append(out.Breaks, br)
			}
		}
		if o.Normal != nil {
			normals = append(normals, o.Normal)
		}
	}
	out.Normal = x.mergeAll(normals)
	return out
}

// ---------- loops ----------

func (x *Exec) loopContract(s ast.Stmt) (*LoopContract, int) {
	// only loops of the unit under verification carry contracts (not loops of inlined callees)
	ord, ok := x.loopOrd[s]
	if !ok {
		return nil, 0
	}
	// the ordinal the loop had in the baseline source (loops added/removed/moved elsewhere shift the ordinals)
	if b := x.baselineOrdinal(s, ord); b != 0 {
		ord = b
	}
	if lc, ok := x.uc.Loops[ord]; ok {
		return lc, ord
	}
	if x.fuc != nil {
		if lc, ok := x.fuc.Loops[ord]; ok {
			return lc, ord
		}
	}
	// loops bound by anchor text (robust against loops added or removed elsewhere in the function): the unit's own
	// and those of the function-level contract; loop contracts of OTHER regions of the same function are not used
	for _, u := range []*UnitContract{x.uc, x.fuc} {
		if u == nil {
			continue
		}
		for _, lc := range u.ALoops {
			if x.anchorMatches(s, lc.Anchor) {
				lc.Ordinal = ord
				return lc, ord
			}
		}
	}
	if x.uc.UnrollLoops > 0 {
		if x.autoUnroll == nil {
			x.autoUnroll = map[ast.Stmt]*LoopContract{}
		}
		lc := x.autoUnroll[s]
		if lc == nil {
			lc = &LoopContract{Ordinal: ord, Unroll: x.uc.UnrollLoops}
			x.autoUnroll[s] = lc
		}
		return lc, ord
	}
	return nil, ord
}

func (x *Exec) diffKeys(base, st *State, into map[string]bool) {
	if st == nil {
		return
	}
	for k, v := range st.store {
		if bv, ok := base.store[k]; ok {
			if bv != v && !sameTerm(bv, v) {
				into[k] = true
			}
			continue
		}
		iv := x.initSym(k, v.S, base)
		if iv != v {
			into[k] = true
		}
	}
	for r, g := range st.gen {
		if base.gen[r] != g {
			into["root:"+r] = true
		}
	}
}

// loopModset computes the set of store keys a loop may write, by repeated dry execution to a fixpoint.
func (x *Exec) loopModset(s ast.Stmt, st *State, run func(*State) []*State) map[string]bool {
	mod := map[string]bool{}
	for k := range x.loopModCache[s] {
		mod[k] = true
	}
	x.dry++
	savedAss := len(x.assumptions)
	savedObs := len(x.obligations)
	for iter := 0; iter < 8; iter++ {
		t := st.clone()
		x.havocSet(t, mod)
		base := t.clone()
		outs := run(t)
		n := len(mod)
		for _, o := range outs {
			x.diffKeys(base, o, mod)
		}
		if len(mod) == n && iter > 0 {
			break
		}
		if len(mod) == n && len(x.loopModCache[s]) > 0 {
			break
		}
	}
	x.dry--
	x.assumptions = x.assumptions[:savedAss]
	x.obligations = x.obligations[:savedObs]
	x.onceAssumed = nil
	x.loopModCache[s] = mod
	return mod
}

func (x *Exec) havocSet(st *State, mod map[string]bool) {
	keys := make([]string, 0, len(mod))
	for k := range mod {
		keys = append(keys, k)
	}
	sort.Strings(keys)
	for _, k := range keys {
		if strings.HasPrefix(k, "root:") {
			x.havocRoot(st, strings.TrimPrefix(k, "root:"))
			continue
		}
		if strings.HasSuffix(k, "#ptrset") {
			base := strings.TrimSuffix(k, "#ptrset")
			if p, ok := st.ptrs[base]; ok {
				st.ptrs[base] = &Loc{Opaque: true, T: p.T}
			}
			continue
		}
		if strings.HasSuffix(k, "#fnset") {
			delete(st.fns, strings.TrimSuffix(k, "#fnset"))
			continue
		}
		x.havocKey(st, k)
	}
}

type loopParts struct {
	stmt    ast.Stmt
	label   string
	cond    func(st *State) *Term // nil = true
	pre     func(st *State)       // executed at the start of each iteration (range variable binding)
	body    *ast.BlockStmt
	post    func(st *State) *State
	ivar    *Loc   // induction variable
	visited string // store key of the visited set of a map range loop
}

func (x *Exec) iterate(lp *loopParts, st *State) (back *State, exits []*State, out Outcomes) {
	c := True
	if lp.cond != nil {
		c = lp.cond(st)
	}
	bodySt, exitSt := x.branch(st, c)
	if exitSt != nil {
		exits = append(exits, exitSt)
	}
	if bodySt == nil {
		return nil, exits, out
	}
	if lp.pre != nil {
		lp.pre(bodySt)
	}
	o := x.execBlock(lp.body.List, bodySt)
	out.Rets = o.Rets
	out.Gotos = o.Gotos
	backs := []*State{}
	if o.Normal != nil {
		backs = append(backs, o.Normal)
	}
	for _, j := range o.Conts {
		if j.Label == "" || j.Label == lp.label {
			backs = append(backs, j.St)
		} else {
			out.Conts = append(out.Conts, j)
		}
	}
	for _, j := range o.Breaks {
		if j.Label == "" || j.Label == lp.label {
			exits = append(exits, j.St)
		} else {
			out.Breaks = append(out.Breaks, j)
		}
	}
	back = x.mergeAll(backs)
	if back != nil && lp.post != nil {
		back = lp.post(back)
	}
	return back, exits, out
}

func (x *Exec) execLoop(lp *loopParts, st *State) Outcomes {
	lc, ord := x.loopContract(lp.stmt)
	var out Outcomes
	loopName := fmt.Sprintf("%s#%d", x.uc.Func, ord)
	if ord == 0 {
		loopName = x.curFunc[len(x.curFunc)-1].Name + "#inlined"
	}
	if lc != nil && lc.Unroll > 0 {
		var exits []*State
		cur := st
		for i := 0; i < lc.Unroll && cur != nil && !cur.pc.IsFalse(); i++ {
			back, ex, o := x.iterate(lp, cur)
			exits = append(exits, ex...)
			out.absorb(o)
			cur = back
		}
		if cur != nil && !cur.pc.IsFalse() {
			c := True
			if lp.cond != nil {
				c = lp.cond(cur)
			}
			x.assert(cur, Not(c), "unwind", fmt.Sprintf("%s/unwind", loopName), lc.Tags, lp.stmt.Pos(),
				fmt.Sprintf("loop ends within %d iterations", lc.Unroll))
			_, ex := x.branch(cur, c)
			if ex != nil {
				exits = append(exits, ex)
			}
		}
		out.Normal = x.mergeAll(exits)
		return out
	}
	// cut the loop
	run := func(t *State) []*State {
		back, ex, o := x.iterate(lp, t)
		res := append([]*State{back}, ex...)
		for _, r := range o.Rets {
			res = append(res, r.St)
		}
		for _, j := range o.Breaks {
			res = append(res, j.St)
		}
		for _, j := range o.Conts {
			res = append(res, j.St)
		}
		return res
	}
	mod := x.loopModset(lp.stmt, st, run)
	preSt := st.clone()
	sp := x.specCtxAt(lp.body.Pos()+1, preSt)
	if lp.ivar != nil {
		sp.bound["__i"] = Value{} // placeholder, re-bound per evaluation
	}
	evalInv := func(c *Clause, at *State) *Term {
		s2 := *sp
		s2.bound = map[string]Value{}
		for k, v := range sp.bound {
			s2.bound[k] = v
		}
		if lp.ivar != nil {
			s2.bound["__i"] = x.readLoc(at, lp.ivar)
		} else {
			delete(s2.bound, "__i")
		}
		if lp.visited != "" {
			if vt, ok := at.store[lp.visited]; ok {
				s2.bound["__visited"] = Value{Term: vt}
			}
		}
		return x.specBool(c, at, &s2)
	}
	if lc != nil {
		for _, inv := range lc.Invariants {
			if !on(inv.Tags) {
				continue
			}
			x.assert(st, evalInv(inv, st), "inv-init", fmt.Sprintf("%s/inv-init:%s", loopName, inv.Name), inv.Tags, lp.stmt.Pos(), inv.Text)
			{
				inv, at := inv, st.clone()
				x.coverAnteWith(loopName, inv, at, "init", func(tmp *Clause) *Term { return evalInv(tmp, at) })
			}
		}
	}
	x.havocSet(st, mod)
	if lc != nil {
		for _, inv := range lc.Invariants {
			if !on(inv.Tags) {
				continue
			}
			x.assume(st, evalInv(inv, st), "inv:"+inv.Name)
		}
	}
	var d0 *Term
	if lc != nil && lc.Decreases != nil && on(lc.DecTags) {
		s2 := *sp
		s2.bound = map[string]Value{}
		if lp.ivar != nil {
			s2.bound["__i"] = x.readLoc(st, lp.ivar)
		}
		d0 = x.specTerm(lc.Decreases, st, &s2)
	}
	back, exits, o := x.iterate(lp, st)
	out.absorb(o)
	if back != nil && !back.pc.IsFalse() && lc != nil {
		for _, inv := range lc.Invariants {
			if !on(inv.Tags) {
				continue
			}
			x.assert(back, evalInv(inv, back), "inv-step", fmt.Sprintf("%s/inv-step:%s", loopName, inv.Name), inv.Tags, lp.stmt.Pos(), inv.Text)
			x.coverAnteWith(loopName, inv, back, "step", func(tmp *Clause) *Term { return evalInv(tmp, back) })
		}
		if d0 != nil {
			s2 := *sp
			s2.bound = map[string]Value{}
			if lp.ivar != nil {
				s2.bound["__i"] = x.readLoc(back, lp.ivar)
			}
			d1 := x.specTerm(lc.Decreases, back, &s2)
			x.assert(back, And(Ge(d0, IntLit(0)), Lt(d1, d0)), "decreases", fmt.Sprintf("%s/decreases", loopName), lc.DecTags, lp.stmt.Pos(), "decreases "+lc.DecText)
		}
	}
	out.Normal = x.mergeAll(exits)
	return out
}

func (x *Exec) execFor(s *ast.ForStmt, st *State, label string) Outcomes {
	var pre Outcomes
	lp := &loopParts{stmt: s, label: label, body: s.Body}
	if s.Init != nil {
		o := x.execStmt(s.Init, st, "")
		pre.absorb(o)
		st = o.Normal
		if st == nil {
			return pre
		}
		if as, ok := s.Init.(*ast.AssignStmt); ok && len(as.Lhs) >= 1 {
			lp.ivar = x.lval(as.Lhs[0], st, nil)
		}
	}
	if lp.ivar == nil && s.Post != nil {
		switch p := s.Post.(type) {
		case *ast.IncDecStmt:
			lp.ivar = x.lval(p.X, st, nil)
		case *ast.AssignStmt:
			lp.ivar = x.lval(p.Lhs[0], st, nil)
		}
	}
	if s.Cond != nil {
		lp.cond = func(t *State) *Term { return x.condTerm(s.Cond, t) }
	}
	if s.Post != nil {
		lp.post = func(t *State) *State {
			o := x.execStmt(s.Post, t, "")
			return o.Normal
		}
	}
	out := x.execLoop(lp, st)
	out.absorb(pre)
	return out
}

func (x *Exec) execRange(s *ast.RangeStmt, st *State, label string) Outcomes {
	lp := &loopParts{stmt: s, label: label, body: s.Body}
	xt := x.info.TypeOf(s.X)
	var keyLoc, valLoc *Loc
	bind := func(e ast.Expr) *Loc {
		if e == nil {
			return nil
		}
		if id, ok := e.(*ast.Ident); ok {
			if id.Name == "_" {
				return nil
			}
			if s.Tok == token.DEFINE {
				if obj, ok := x.info.Defs[id].(*types.Var); ok {
					return x.varLoc(obj)
				}
			}
		}
		return x.lval(e, st, nil)
	}
	keyLoc = bind(s.Key)
	valLoc = bind(s.Value)
	isInt := false
	if b, ok := xt.Underlying().(*types.Basic); ok && b.Info()&types.IsInteger != 0 {
		isInt = true
	}
	_, isArr := xt.Underlying().(*types.Array)
	_, isSlice := xt.Underlying().(*types.Slice)
	mkIdx := func() *Loc {
		idx := keyLoc
		if idx == nil {
			k := fmt.Sprintf("range@%d", x.prog.Fset.Position(s.Pos()).Line)
			idx = &Loc{Key: k, T: intT, KeyT: intT}
			x.keyTypes[k] = intT
		}
		return idx
	}
	switch {
	case isArr || isSlice:
		coll := x.eval(s.X, st, nil) // evaluated once
		var length *Term
		if a, ok := xt.Underlying().(*types.Array); ok {
			length = IntLit(a.Len())
		} else if coll.Len != nil {
			length = coll.Len
		} else {
			length = x.freshSym("len", IntS)
		}
		idx := mkIdx()
		x.writeLoc(st, idx, Value{T: intT, Term: IntLit(0)})
		lp.ivar = idx
		lp.cond = func(t *State) *Term {
			return Lt(x.readLoc(t, idx).Term, length)
		}
		lp.pre = func(t *State) {
			if valLoc != nil {
				i := x.readLoc(t, idx).Term
				if coll.Term != nil && coll.Term.S.K == SArr {
					x.writeLoc(t, valLoc, Value{T: valLoc.T, Term: Select(coll.Term, i)})
				} else {
					x.writeLoc(t, valLoc, x.freshValue("rangeval", valLoc.T, t))
				}
			}
		}
		lp.post = func(t *State) *State {
			x.writeLoc(t, idx, Value{T: intT, Term: Add(x.readLoc(t, idx).Term, IntLit(1))})
			return t
		}
	case isInt:
		n := x.eval(s.X, st, nil)
		idx := mkIdx()
		x.writeLoc(st, idx, Value{T: intT, Term: IntLit(0)})
		lp.ivar = idx
		lp.cond = func(t *State) *Term { return Lt(x.readLoc(t, idx).Term, n.Term) }
		lp.post = func(t *State) *State {
			x.writeLoc(t, idx, Value{T: intT, Term: Add(x.readLoc(t, idx).Term, IntLit(1))})
			return t
		}
	default:
		coll := x.eval(s.X, st, nil)
		mt, isMap := xt.Underlying().(*types.Map)
		if isMap && coll.Dom != nil && coll.Term != nil {
			// map: every key of the domain is visited exactly once, in arbitrary order (ghost set "visited")
			ks := sortOf(mt.Key())
			visKey := fmt.Sprintf("visited@%d", x.prog.Fset.Position(s.Pos()).Line)
			visLoc := &Loc{Key: visKey, T: types.NewMap(mt.Key(), boolT), KeyT: types.NewMap(mt.Key(), boolT)}
			x.keyTypes[visKey] = visLoc.T
			st.store[visKey] = ConstArr(ArrS(ks, BoolS), False)
			curKey := fmt.Sprintf("rangekey@%d", x.prog.Fset.Position(s.Pos()).Line)
			lp.visited = visKey
			structKey, keyIsStruct := mt.Key().Underlying().(*types.Struct)
			lp.cond = func(t *State) *Term {
				more := x.freshSym("more", BoolS)
				x.fresh++
				k := Sym(fmt.Sprintf("unv?%d", x.fresh), ks)
				vis := x.get(t, visKey, ArrS(ks, BoolS))
				// more <=> some key of the domain is not yet visited
				x.assume(t, Eq(more, Exists([]*Term{k}, And(Select(coll.Dom, k), Not(Select(vis, k))))), "range:more")
				return more
			}
			lp.pre = func(t *State) {
				kv := x.freshSym("rangekey", ks)
				vis := x.get(t, visKey, ArrS(ks, BoolS))
				x.assume(t, And(Select(coll.Dom, kv), Not(Select(vis, kv))), "range key: in the domain, not yet visited")
				t.store[visKey] = x.nameTerm(visKey, Store(vis, kv, True))
				t.store[curKey] = kv
				if keyLoc != nil {
					if keyIsStruct {
						kvv := Value{T: mt.Key(), Fields: map[string]Value{}}
						for i := 0; i < structKey.NumFields(); i++ {
							f := structKey.Field(i)
							kvv.Fields[f.Name()] = Value{T: f.Type(), Term: App("fld_"+f.Name(), sortOf(f.Type()), kv)}
						}
						x.writeLoc(t, keyLoc, kvv)
					} else {
						x.writeLoc(t, keyLoc, Value{T: mt.Key(), Term: kv})
					}
				}
				if valLoc != nil {
					vv := Value{T: valLoc.T, Term: Select(coll.Term, kv)}
					if coll.Dom2 != nil {
						vv.Dom = Select(coll.Dom2, kv)
					}
					x.writeLoc(t, valLoc, vv)
				}
			}
			break
		}
		// strings, channels, functions, untracked maps: arbitrary number of iterations over arbitrary elements
		x.abstract("range over " + xt.String() + " (arbitrary iteration order and count)")
		lp.cond = func(t *State) *Term { return x.freshSym("more", BoolS) }
		lp.pre = func(t *State) {
			if keyLoc != nil {
				kv := x.freshValue("rangekey", keyLoc.T, t)
				x.writeLoc(t, keyLoc, kv)
				if coll.Dom != nil && kv.Term != nil {
					x.assume(t, Select(coll.Dom, kv.Term), "range key in domain")
					if valLoc != nil && coll.Term != nil {
						x.writeLoc(t, valLoc, Value{T: valLoc.T, Term: Select(coll.Term, kv.Term)})
						return
					}
				}
			}
			if valLoc != nil {
				x.writeLoc(t, valLoc, x.freshValue("rangeval", valLoc.T, t))
			}
		}
	}
	return x.execLoop(lp, st)
}
