package main

import (
	"bytes"
	"context"
	"fmt"
	"os"
	"os/exec"
	"path/filepath"
	"strings"
	"sync"
	"syscall"
	"time"
)

type SolveResult struct {
	Status  string // unsat, sat, unknown, timeout, error
	Solver  string
	Seconds float64
	Model   map[string]string
	Raw     string
	All     map[string]string // per-solver status (thorough tier)
}

type solverSpec struct {
	name string
	args func(timeoutS int, file string) []string
}

var solvers = []solverSpec{
	{"z3-new", func(t int, f string) []string { return []string{"z3-new", fmt.Sprintf("-T:%d", t), f} }},
	{"z3", func(t int, f string) []string { return []string{"z3", fmt.Sprintf("-T:%d", t), f} }},
	{"cvc5", func(t int, f string) []string {
		return []string{"cvc5", "--produce-models", fmt.Sprintf("--tlimit=%d", t*1000), f}
	}},
}

// sliceAssumptions keeps the assumptions transitively connected to the goal's symbols.
func sliceAssumptions(ass []Assump, seeds ...*Term) []*Term {
	syms := map[string]bool{}
	seen := map[*Term]bool{}
	for _, s := range seeds {
		collectSyms(s, syms, seen)
	}
	type info struct {
		syms map[string]bool
		in   bool
	}
	infos := make([]*info, len(ass))
	bySym := map[string][]int{}
	for i, a := range ass {
		m := map[string]bool{}
		collectSyms(a.T, m, map[*Term]bool{})
		infos[i] = &info{syms: m}
		if a.Def != "" {
			bySym[a.Def] = append(bySym[a.Def], i)
		} else {
			for s := range m {
				bySym[s] = append(bySym[s], i)
			}
		}
	}
	var work []string
	for s := range syms {
		work = append(work, s)
	}
	for len(work) > 0 {
		s := work[len(work)-1]
		work = work[:len(work)-1]
		for _, i := range bySym[s] {
			if infos[i].in {
				continue
			}
			infos[i].in = true
			for t := range infos[i].syms {
				if !syms[t] {
					syms[t] = true
					work = append(work, t)
				}
			}
		}
	}
	var out []*Term
	for i, a := range ass {
		if infos[i].in || len(infos[i].syms) == 0 {
			out = append(out, a.T)
		}
	}
	return out
}

// sliceRadius keeps the definitions needed by the seeds and the plain facts within a bounded
// "distance" of them (facts and path-condition definitions cost one step, other definitions none).
// Dropping hypotheses is sound for proving (unsat stays valid); a sat answer on a reduced set is never used.
func sliceRadius(ass []Assump, radius int, seeds ...*Term) []*Term {
	dist := map[string]int{}
	seen := map[*Term]bool{}
	s0 := map[string]bool{}
	for _, s := range seeds {
		collectSyms(s, s0, seen)
	}
	type info struct {
		syms []string
		in   bool
	}
	infos := make([]*info, len(ass))
	byDef := map[string][]int{}
	bySym := map[string][]int{}
	for i, a := range ass {
		m := map[string]bool{}
		collectSyms(a.T, m, map[*Term]bool{})
		in := &info{}
		for s := range m {
			in.syms = append(in.syms, s)
		}
		infos[i] = in
		if a.Def != "" {
			byDef[a.Def] = append(byDef[a.Def], i)
		} else {
			for s := range m {
				bySym[s] = append(bySym[s], i)
			}
		}
	}
	var queue []string
	for s := range s0 {
		dist[s] = 0
		queue = append(queue, s)
	}
	relax := func(s string, d int) {
		if old, ok := dist[s]; !ok || d < old {
			dist[s] = d
			queue = append(queue, s)
		}
	}
	for len(queue) > 0 {
		s := queue[0]
		queue = queue[1:]
		d := dist[s]
		for _, i := range byDef[s] {
			infos[i].in = true
			isPC := strings.HasPrefix(s, "pc!")
			for _, t := range infos[i].syms {
				if isPC && !strings.HasPrefix(t, "pc!") {
					// symbols that only occur in branch conditions are one step further away
					relax(t, d+1)
				} else {
					relax(t, d)
				}
			}
		}
		if d >= radius {
			continue
		}
		for _, i := range bySym[s] {
			infos[i].in = true
			for _, t := range infos[i].syms {
				relax(t, d+1)
			}
		}
	}
	var out []*Term
	for i, a := range ass {
		if infos[i].in || len(infos[i].syms) == 0 {
			out = append(out, a.T)
		}
	}
	return out
}

// ScriptRadius is Script with a bounded-relevance hypothesis set. The goal is skolemised and the quantified
// hypotheses are additionally instantiated at the skolem constants and their neighbours (k-1, k, k+1).
func (ob *Obligation) ScriptRadius(radius int) string {
	return ob.ScriptRadiusOpt(radius, false, false)
}

func hasQuant(t *Term, memo map[*Term]bool) bool {
	if v, ok := memo[t]; ok {
		return v
	}
	r := t.Op == "forall" || t.Op == "exists"
	if !r {
		for _, a := range t.Args {
			if hasQuant(a, memo) {
				r = true
				break
			}
		}
	}
	memo[t] = r
	return r
}

// ground=true drops the quantified hypotheses after instantiating them (only an unsat answer is used).
func (ob *Obligation) ScriptRadiusOpt(radius int, ufmul bool, ground bool) string {
	ass := ob.exec.assumptions[:ob.NAss]
	neg, sks := skolemizeNeg(ob.Goal)
	terms := sliceRadius(ass, radius, ob.PC, neg)
	if len(sks) > 0 && len(sks) <= 3 {
		var insts []*Term
		for _, k := range sks {
			if k.S.K == SInt {
				insts = append(insts, k, Add(k, IntLit(1)), Sub(k, IntLit(1)))
			}
		}
		var extra []*Term
		for _, t := range terms {
			extra = append(extra, instances(t, insts)...)
		}
		terms = append(terms, extra...)
	}
	if ground {
		memo := map[*Term]bool{}
		var keep []*Term
		for _, t := range terms {
			if !hasQuant(t, memo) {
				keep = append(keep, t)
			}
		}
		terms = keep
	}
	terms = append(terms, ob.PC, neg)
	var defs map[string]*Term
	if ufmul {
		defs = map[string]*Term{}
		for _, a := range ass {
			if a.Def != "" && a.T.Op == "=" && len(a.T.Args) == 2 && (a.T.Args[1].S.K == SReal || a.T.Args[1].S.K == SInt) {
				defs[a.Def] = a.T.Args[1]
			}
		}
	}
	return ScriptDefs(terms, nil, "", ufmul, defs)
}

func (ob *Obligation) Script(getValues []*Term) string {
	return ob.ScriptWith(nil, getValues)
}

// ScriptWith adds extra hypotheses (one case of a path-condition split).
func (ob *Obligation) ScriptWith(extra []*Term, getValues []*Term) string {
	ass := ob.exec.assumptions[:ob.NAss]
	neg := Not(ob.Goal)
	seeds := append([]*Term{ob.PC, neg}, extra...)
	terms := sliceAssumptions(ass, seeds...)
	terms = append(terms, ob.PC, neg)
	terms = append(terms, extra...)
	return Script(terms, getValues, "")
}

// SplitPC expands the path condition of the obligation, through the definitions of the named
// path-condition symbols, into at most max disjuncts (each a conjunction). The disjunction of the
// cases is implied by the path condition, so proving the goal in every case proves it.
func (ob *Obligation) SplitPC(max int) [][]*Term {
	defs := map[string]*Term{}
	for _, a := range ob.exec.assumptions[:ob.NAss] {
		if a.Def != "" && strings.HasPrefix(a.Def, "pc!") && a.T.Op == "=" && len(a.T.Args) == 2 {
			defs[a.Def] = a.T.Args[1]
		}
	}
	type conj []*Term
	cases := []conj{{ob.PC}}
	// repeatedly expand the first expandable atom of some case (breadth first) while the case count stays <= max
	for round := 0; round < 64; round++ {
		changed := false
		var next []conj
		for ci, c := range cases {
			expanded := false
			for i, t := range c {
				var alts []conj
				switch {
				case t.Op == "const" && defs[t.Name] != nil:
					alts = []conj{{defs[t.Name]}}
				case t.Op == "or":
					for _, a := range t.Args {
						alts = append(alts, conj{a})
					}
				case t.Op == "and":
					alts = []conj{conj(t.Args)}
				}
				if alts == nil {
					continue
				}
				if len(cases)-1+len(alts)+len(next)-ci > max && len(alts) > 1 {
					continue
				}
				for _, alt := range alts {
					nc := append(conj{}, c[:i]...)
					nc = append(nc, alt...)
					nc = append(nc, c[i+1:]...)
					next = append(next, nc)
				}
				expanded = true
				changed = true
				break
			}
			if !expanded {
				next = append(next, c)
			}
		}
		cases = next
		if !changed || len(cases) > max {
			break
		}
	}
	out := make([][]*Term, len(cases))
	for i, c := range cases {
		out[i] = c
	}
	return out
}

func runSolver(ctx context.Context, sp solverSpec, file string, timeoutS int) (status, raw string, secs float64) {
	// The budget is CPU time of the solver process (ulimit -t), not wall-clock time: a verdict must not depend on how
	// busy the machine is (a wall-clock limit turned a 3 s proof into a "timeout" when many checks ran side by side).
	// The solvers' own (wall-clock) limits and the context are only a backstop at four times the budget.
	wall := 4*timeoutS + 5
	args := append([]string{"/bin/sh", "-c", fmt.Sprintf("ulimit -t %d; exec \"$@\"", timeoutS+1), "sh"}, sp.args(wall, file)...)
	t0 := time.Now()
	cctx, cancel := context.WithTimeout(ctx, time.Duration(wall+2)*time.Second)
	defer cancel()
	cmd := exec.CommandContext(cctx, args[0], args[1:]...)
	var out, errb bytes.Buffer
	cmd.Stdout = &out
	cmd.Stderr = &errb
	err := cmd.Run()
	secs = time.Since(t0).Seconds()
	raw = out.String()
	if raw == "" {
		raw = errb.String()
	}
	first := strings.TrimSpace(strings.SplitN(raw, "\n", 2)[0])
	switch first {
	case "unsat", "sat", "unknown":
		return first, raw, secs
	case "timeout":
		return "timeout", raw, secs
	}
	if cctx.Err() != nil {
		return "timeout", raw, secs
	}
	if err != nil || first != "" {
		if strings.Contains(raw, "timeout") || strings.Contains(raw, "interrupted") {
			return "timeout", raw, secs
		}
		if ee, ok := err.(*exec.ExitError); ok && ee.ProcessState != nil {
			if ws, ok := ee.ProcessState.Sys().(syscall.WaitStatus); ok && ws.Signaled() && (ws.Signal() == syscall.SIGXCPU || ws.Signal() == syscall.SIGKILL) {
				return "timeout", raw, secs // CPU budget used up
			}
		}
		return "error", raw, secs
	}
	return "unknown", raw, secs
}

var scratchDir string
var scratchOnce sync.Once

func scratch() string {
	scratchOnce.Do(func() {
		base := os.Getenv("HVC_SCRATCH")
		if base == "" {
			base = filepath.Join(verifRoot, ".scratch")
		}
		os.MkdirAll(base, 0o755)
		d, err := os.MkdirTemp(base, "run")
		if err != nil {
			panic(err)
		}
		scratchDir = d
	})
	return scratchDir
}

func cleanupScratch() {
	if scratchDir != "" {
		os.RemoveAll(scratchDir)
	}
}

var fileSeq int
var fileSeqMu sync.Mutex

// Solve races the solvers on one script. all=true waits for every solver (agreement check).
func Solve(script string, timeoutS int, all bool) SolveResult {
	fileSeqMu.Lock()
	fileSeq++
	n := fileSeq
	fileSeqMu.Unlock()
	file := filepath.Join(scratch(), fmt.Sprintf("q%d.smt2", n))
	os.WriteFile(file, []byte(script), 0o644)
	defer os.Remove(file)
	ctx, cancel := context.WithCancel(context.Background())
	defer cancel()
	type res struct {
		name, status, raw string
		secs              float64
	}
	ch := make(chan res, len(solvers))
	for _, sp := range solvers {
		sp := sp
		go func() {
			st, raw, secs := runSolver(ctx, sp, file, timeoutS)
			ch <- res{sp.name, st, raw, secs}
		}()
	}
	out := SolveResult{Status: "unknown", All: map[string]string{}}
	var best *res
	for i := 0; i < len(solvers); i++ {
		r := <-ch
		out.All[r.name] = r.status
		if r.status == "unsat" || r.status == "sat" {
			if best == nil {
				rr := r
				best = &rr
				if !all {
					cancel()
					break
				}
			} else if best.status != r.status {
				out.Status = "disagree"
				out.Raw = fmt.Sprintf("%s says %s, %s says %s", best.name, best.status, r.name, r.status)
				return out
			}
		} else if best == nil {
			out.Raw = r.raw
			if r.status == "timeout" {
				out.Status = "timeout"
			} else if r.status == "error" && out.Status != "timeout" {
				out.Status = "error"
			}
		}
	}
	if best != nil {
		out.Status = best.status
		out.Solver = best.name
		out.Seconds = best.secs
		out.Raw = best.raw
		if best.status == "sat" {
			out.Model = parseValues(best.raw)
		}
	}
	return out
}

// parseValues parses the (get-value ...) answer: ((term value) ...). Terms and values are kept as text.
func parseValues(raw string) map[string]string {
	i := strings.Index(raw, "\n")
	if i < 0 {
		return nil
	}
	body := strings.TrimSpace(raw[i+1:])
	if !strings.HasPrefix(body, "(") {
		return nil
	}
	// tokenise into s-expressions
	pos := 0
	var parse func() interface{}
	skip := func() {
		for pos < len(body) && (body[pos] == ' ' || body[pos] == '\n' || body[pos] == '\t' || body[pos] == '\r') {
			pos++
		}
	}
	parse = func() interface{} {
		skip()
		if pos >= len(body) {
			return nil
		}
		if body[pos] == '(' {
			pos++
			var l []interface{}
			for {
				skip()
				if pos >= len(body) {
					return l
				}
				if body[pos] == ')' {
					pos++
					return l
				}
				l = append(l, parse())
			}
		}
		start := pos
		if body[pos] == '|' {
			pos++
			for pos < len(body) && body[pos] != '|' {
				pos++
			}
			if pos < len(body) {
				pos++ // closing bar (absent when the solver output was cut off inside a quoted symbol)
			}
			return body[start:pos]
		}
		for pos < len(body) && !strings.ContainsRune(" \n\t\r()", rune(body[pos])) {
			pos++
		}
		return body[start:pos]
	}
	top, ok := parse().([]interface{})
	if !ok {
		return nil
	}
	m := map[string]string{}
	for _, p := range top {
		pair, ok := p.([]interface{})
		if !ok || len(pair) != 2 {
			continue
		}
		m[sexpString(pair[0])] = sexpString(pair[1])
	}
	return m
}

func sexpString(v interface{}) string {
	switch t := v.(type) {
	case string:
		return t
	case []interface{}:
		var parts []string
		for _, e := range t {
			parts = append(parts, sexpString(e))
		}
		return "(" + strings.Join(parts, " ") + ")"
	}
	return ""
}

// ScriptCandidate: a REDUCED query used only to find candidate entry states for an undecided obligation (timeout /
// unknown): hypotheses within the given radius of the goal, every precondition of the unit, quantified hypotheses other
// than preconditions dropped. A model of it proves nothing; it is a state to run the real code on (replay2.go).
func (ob *Obligation) ScriptCandidate(radius int, extra []*Term, getValues []*Term) string {
	ass := ob.exec.assumptions[:ob.NAss]
	neg := Not(ob.Goal)
	terms := sliceRadius(ass, radius, ob.PC, neg)
	memo := map[*Term]bool{}
	in := map[*Term]bool{}
	var keep []*Term
	for _, t := range terms {
		if !hasQuant(t, memo) {
			keep = append(keep, t)
			in[t] = true
		}
	}
	for _, a := range ass {
		if strings.HasPrefix(a.Lbl, "requires:") && !in[a.T] {
			keep = append(keep, a.T)
			in[a.T] = true
		}
	}
	keep = append(keep, ob.PC, neg)
	keep = append(keep, extra...)
	return Script(keep, getValues, "")
}
