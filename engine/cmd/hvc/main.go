package main

import (
	"go/token"
	"encoding/json"
	"flag"
	"fmt"
	"os"
	"os/exec"
	"path/filepath"
	"regexp"
	"sort"
	"strconv"
	"strings"
	"sync"
	"time"
)

func usage() {
	fmt.Fprintln(os.Stderr, `usage:
  hvc check <PROP> [--tier quick|thorough]   verify every obligation of a property
  hvc unit <pkgdir> <unit-id> [-v] [-dump name]   verify one function/region/lemma (debugging)
  hvc replay <path>                           re-run a recorded counterexample against the real code
  hvc list                                    list units and the properties they serve
  hvc expect [--update]                       compare / rewrite contracts/expected_obligations.json`)
	os.Exit(2)
}

func main() {
	if len(os.Args) < 2 {
		usage()
	}
	if r := os.Getenv("HVC_REPO"); r != "" {
		repoRoot = r
	}
	if r := os.Getenv("HVC_VERIF"); r != "" {
		verifRoot = r
	}
	defer cleanupScratch()
	code := 0
	switch os.Args[1] {
	case "check":
		code = cmdCheck(os.Args[2:])
	case "unit":
		code = cmdUnit(os.Args[2:])
	case "list":
		code = cmdList()
	case "replay":
		code = cmdReplay(os.Args[2:])
	case "expect":
		code = cmdExpect(os.Args[2:])
	case "vacuity":
		code = cmdVacuity(os.Args[2:])
	case "loops":
		prog, err := LoadProgram([]string{os.Args[2]})
		if err != nil {
			fmt.Fprintln(os.Stderr, err)
			os.Exit(2)
		}
		fu := prog.Lookup(os.Args[2], os.Args[3])
		if fu == nil {
			fmt.Fprintln(os.Stderr, "no such function")
			os.Exit(2)
		}
		for i, l := range loopsOf(fu.Body) {
			ps := prog.Fset.Position(l.Pos())
			data, _ := os.ReadFile(ps.Filename)
			line := strings.Split(string(data), "\n")[ps.Line-1]
			fmt.Printf("%s#%d  %s:%d  %s\n", fu.Name, i+1, filepath.Base(ps.Filename), ps.Line, strings.TrimSpace(line))
		}
	case "selftest":
		code = cmdSelftest(os.Args[2:])
	default:
		usage()
	}
	cleanupScratch()
	os.Exit(code)
}

func contractsDir() string { return filepath.Join(verifRoot, "contracts") }

// outRoot: where evidence/ and replay/ are written (HVC_OUT redirects them, used when checking scratch copies)
func outRoot() string {
	if o := os.Getenv("HVC_OUT"); o != "" {
		return o
	}
	return verifRoot
}

func loadAll(pkgdirs map[string]bool) (*Program, *ContractSet, error) {
	cs, err := LoadContracts(contractsDir())
	if err != nil {
		return nil, nil, err
	}
	var dirs []string
	if pkgdirs == nil {
		seen := map[string]bool{}
		for _, u := range cs.Units {
			if !seen[u.PkgDir] {
				seen[u.PkgDir] = true
				dirs = append(dirs, u.PkgDir)
			}
		}
	} else {
		for d := range pkgdirs {
			dirs = append(dirs, d)
		}
	}
	sort.Strings(dirs)
	prog, err := LoadProgram(dirs)
	if err != nil {
		return nil, nil, err
	}
	return prog, cs, nil
}

type ObResult struct {
	Ob  *Obligation
	Res SolveResult
	OK  bool
}

func discharge(obs []*Obligation, timeoutS int, all bool) []ObResult {
	out := make([]ObResult, len(obs))
	var wg sync.WaitGroup
	sem := make(chan struct{}, 6)
	for i, ob := range obs {
		wg.Add(1)
		go func(i int, ob *Obligation) {
			defer wg.Done()
			sem <- struct{}{}
			defer func() { <-sem }()
			var r SolveResult
			if ob.Concrete != nil {
				by := "exhaustive-fp"
				if ob.Kind == "no-shared-state" {
					by = "syntactic-callgraph"
				}
				if *ob.Concrete == "" {
					r = SolveResult{Status: "unsat", Solver: by}
				} else {
					r = SolveResult{Status: "sat", Solver: by, Raw: *ob.Concrete}
				}
			} else if ob.Goal.IsTrue() && ob.Expect != "sat" {
				r = SolveResult{Status: "unsat", Solver: "trivial"}
			} else {
				t := timeoutS
				if ob.Expect == "sat" && t > 10 {
					t = 10
				}
				if ob.Expect == "sat" {
					r = Solve(ob.Script(nil), t, false)
				} else {
					r = solveWithSplit(ob, t, all)
				}
			}
			ok := r.Status == "unsat"
			if ob.Expect == "sat" {
				ok = r.Status != "unsat" && r.Status != "disagree"
			}
			out[i] = ObResult{Ob: ob, Res: r, OK: ok}
		}(i, ob)
	}
	wg.Wait()
	return out
}

// solveWithSplit tries the obligation as one query first (short budget) and, if that is not decided,
// as a case split over the path condition (every case must be unsat).
func solveWithSplit(ob *Obligation, timeoutS int, all bool) SolveResult {
	first := timeoutS
	if first > 6 {
		first = 6
	}
	// cheap attempts on a bounded-relevance subset of the hypotheses (only an unsat answer counts)
	var spent float64
	for _, at := range []struct {
		radius int
		uf     bool
		ground bool
	}{{1, true, false}, {2, true, false}, {2, true, true}, {2, false, true}, {4, true, false}, {4, false, true}, {4, false, false}} {
		rr := Solve(ob.ScriptRadiusOpt(at.radius, at.uf, at.ground), 3, false)
		spent += rr.Seconds
		if rr.Status == "unsat" {
			rr.Solver = fmt.Sprintf("%s/r%d", rr.Solver, at.radius)
			if at.uf {
				rr.Solver += "u"
			}
			if at.ground {
				rr.Solver += "g"
			}
			rr.Seconds = spent
			return rr
		}
	}
	// declared case split of the unit (complete: the cases cover everything)
	if n := len(ob.exec.caseTerms); n > 0 && n <= 5 {
		combos := 1 << n
		res := make([]SolveResult, combos)
		var wg sync.WaitGroup
		for m := 0; m < combos; m++ {
			wg.Add(1)
			go func(m int) {
				defer wg.Done()
				var extra []*Term
				for i, c := range ob.exec.caseTerms {
					if m&(1<<i) != 0 {
						extra = append(extra, c)
					} else {
						extra = append(extra, Not(c))
					}
				}
				res[m] = Solve(ob.ScriptWith(extra, nil), timeoutS, false)
			}(m)
		}
		wg.Wait()
		okAll := true
		for _, cr := range res {
			spent += cr.Seconds
			if cr.Status != "unsat" {
				okAll = false
			}
		}
		if okAll {
			return SolveResult{Status: "unsat", Solver: fmt.Sprintf("cases%d", combos), Seconds: spent, All: map[string]string{}}
		}
	}
	r := Solve(ob.Script(nil), first, all)
	if r.Status == "unsat" || r.Status == "sat" || r.Status == "disagree" {
		return r
	}
	total := r.Seconds
	for _, max := range []int{6, 16, 40} {
		cases := ob.SplitPC(max)
		if len(cases) <= 1 {
			break
		}
		res := make([]SolveResult, len(cases))
		var wg sync.WaitGroup
		for i, c := range cases {
			wg.Add(1)
			go func(i int, c []*Term) {
				defer wg.Done()
				res[i] = Solve(ob.ScriptWith(c, nil), timeoutS, false)
			}(i, c)
		}
		wg.Wait()
		okAll := true
		var secs float64
		for _, cr := range res {
			secs += cr.Seconds
			if cr.Status == "sat" {
				cr.Solver = cr.Solver + fmt.Sprintf("/split%d", len(cases))
				return cr
			}
			if cr.Status != "unsat" {
				okAll = false
			}
		}
		total += secs
		if okAll {
			return SolveResult{Status: "unsat", Solver: fmt.Sprintf("split%d", len(cases)), Seconds: total, All: map[string]string{}}
		}
	}
	if timeoutS > first {
		r2 := Solve(ob.Script(nil), timeoutS, all)
		r2.Seconds += total
		return r2
	}
	return r
}

func cmdUnit(args []string) int {
	fs := flag.NewFlagSet("unit", flag.ExitOnError)
	verbose := fs.Bool("v", false, "verbose")
	dump := fs.String("dump", "", "write the SMT script of the obligation with this name (substring) to stdout")
	timeout := fs.Int("t", 10, "timeout per query (s)")
	propFlag := fs.String("p", "", "only the clauses serving this property")
	groundFlag := fs.Bool("ground", false, "with -dump -radius: drop quantified hypotheses (instances only)")
	ufFlag := fs.Bool("uf", false, "with -dump -radius: products of non-literals as uninterpreted functions")
	radiusFlag := fs.Int("radius", 0, "with -dump: bounded-relevance hypothesis set of this radius")
	modelFlag := fs.Bool("model", false, "for sat obligations, write the full z3 model to /tmp/hvc-model-<name>.txt")
	if len(args) < 2 {
		usage()
	}
	fs.Parse(args[2:])
	prog, cs, err := loadAll(map[string]bool{args[0]: true})
	if err != nil {
		fmt.Fprintln(os.Stderr, "error:", err)
		return 2
	}
	uc := cs.Get(args[0], args[1])
	if uc == nil {
		fmt.Fprintln(os.Stderr, "no contract for", args[1])
		return 2
	}
	t0 := time.Now()
	activeProp = *propFlag
	res := VerifyUnit(prog, cs, uc)
	for _, e := range res.Errors {
		fmt.Println("ERROR:", e)
	}
	if *dump != "" {
		for _, ob := range res.Obligations {
			if strings.Contains(ob.Name, *dump) {
				fmt.Println("; ", ob.Name)
				if *radiusFlag > 0 {
					fmt.Println(ob.ScriptRadiusOpt(*radiusFlag, *ufFlag, *groundFlag))
					return 0
				}
				fmt.Println(ob.Script(nil))
				return 0
			}
		}
		fmt.Println("no such obligation")
		return 2
	}
	fmt.Printf("unit %s %s: %d obligations generated in %.2fs\n", uc.ID(), res.SrcRange, len(res.Obligations), time.Since(t0).Seconds())
	rs := discharge(res.Obligations, *timeout, false)
	bad := 0
	for _, r := range rs {
		mark := "ok  "
		if !r.OK {
			mark = "FAIL"
			bad++
		}
		if *verbose || !r.OK {
			fmt.Printf("%s %-60s %-8s %-7s %.2fs  %s\n", mark, r.Ob.Name, r.Res.Status, r.Res.Solver, r.Res.Seconds, r.Ob.Pos)
		}
		if *modelFlag && !r.OK && r.Res.Status == "sat" {
			writeModel(r.Ob)
		}
	}
	if res.Exec != nil && *verbose {
		var ab []string
		for a := range res.Exec.abstracted {
			ab = append(ab, a)
		}
		sort.Strings(ab)
		for _, a := range ab {
			fmt.Println("abstracted:", a)
		}
	}
	fmt.Printf("%d/%d discharged\n", len(rs)-bad, len(rs))
	if bad > 0 || len(res.Errors) > 0 {
		return 1
	}
	return 0
}

// writeModel finds a satisfiable case of the obligation and stores z3's model (debugging aid).
func writeModel(ob *Obligation) {
	cases := [][]*Term{nil}
	for _, max := range []int{6, 16, 40} {
		cases = append(cases, ob.SplitPC(max)...)
	}
	for _, c := range cases {
		script := strings.Replace(ob.ScriptWith(c, nil), "(check-sat)", "(check-sat)\n(get-model)", 1)
		f := filepath.Join(scratch(), "model.smt2")
		os.WriteFile(f, []byte(script), 0o644)
		out, _ := exec.Command("z3-new", "-T:20", f).CombinedOutput()
		if strings.HasPrefix(string(out), "sat") {
			name := "/tmp/hvc-model-" + sanitize(ob.Name) + ".txt"
			os.WriteFile(name, out, 0o644)
			os.WriteFile(name+".smt2", []byte(script), 0o644)
			fmt.Println("   model written to", name)
			return
		}
	}
}

func cmdList() int {
	cs, err := LoadContracts(contractsDir())
	if err != nil {
		fmt.Fprintln(os.Stderr, err)
		return 2
	}
	for _, u := range cs.Units {
		var tags []string
		for t := range u.Tags {
			tags = append(tags, t)
		}
		sort.Strings(tags)
		fmt.Printf("%-28s %-40s %s\n", u.PkgDir, u.ID(), strings.Join(tags, ","))
	}
	return 0
}

// ---------- known findings ----------

type Finding struct {
	Prop, Obligation, Text string
}

func loadFindings() []Finding {
	data, err := os.ReadFile(filepath.Join(verifRoot, "known_findings.txt"))
	if err != nil {
		return nil
	}
	re := regexp.MustCompile(`^finding:\s+property=(\S+)\s+obligation=(\S+)\s+(.*)$`)
	var out []Finding
	for _, l := range strings.Split(string(data), "\n") {
		if m := re.FindStringSubmatch(strings.TrimSpace(l)); m != nil {
			out = append(out, Finding{m[1], m[2], m[3]})
		}
	}
	return out
}

// ---------- check ----------

type Evidence struct {
	PropertyID  string                 `json:"property_id"`
	Tier        string                 `json:"tier"`
	Seed        int                    `json:"seed"`
	Level       string                 `json:"level"`
	Coverage    map[string]interface{} `json:"coverage"`
	Assumptions []string               `json:"assumptions"`
	WallS       float64                `json:"wall_s"`
	Violations  int                    `json:"violations"`
}

var baseTrusted = []string{
	"go/parser + go/types (x/tools v0.29.0 go/packages loader) represent the compiled program",
	"hvc's translation of Go statements to verification conditions (engine/cmd/hvc)",
	"unsat answers of z3 4.8.12 / z3 5.1.0 / cvc5 1.0.3 (first definite answer; thorough tier checks agreement)",
	"float64 arithmetic treated as exact real arithmetic (round-off not modelled)",
	"int/uint64 arithmetic treated as mathematical integers (no 64-bit overflow)",
	"pointer parameters of the same struct type do not alias; pointers loaded from memory point to distinct objects",
	"pointer parameters and pointer fields of the entry state are allocated (non-nil): functions are verified for non-nil receivers and struct pointers only",
	"nil-ness of a map is a function of its key set and implies an empty key set; make() yields an arbitrary value of it",
}

func sanitize(s string) string {
	return regexp.MustCompile(`[^A-Za-z0-9_.\-]+`).ReplaceAllString(s, "_")
}

func cmdCheck(args []string) int {
	if len(args) < 1 {
		usage()
	}
	prop := args[0]
	fs := flag.NewFlagSet("check", flag.ExitOnError)
	tier := fs.String("tier", "", "quick|thorough")
	fs.Parse(args[1:])
	if *tier == "" {
		*tier = os.Getenv("VERIF_TIER")
	}
	if *tier != "thorough" {
		*tier = "quick"
	}
	seed, _ := strconv.Atoi(os.Getenv("VERIF_SEED"))
	t0 := time.Now()
	cs, err := LoadContracts(contractsDir())
	if err != nil {
		fmt.Fprintln(os.Stderr, "broken check:", err)
		return 2
	}
	var units []*UnitContract
	dirs := map[string]bool{}
	for _, u := range cs.Units {
		serves := u.Tags[prop]
		for t := range u.Tags {
			if strings.HasPrefix(t, prop+".") {
				serves = true
			}
		}
		if serves {
			units = append(units, u)
			dirs[u.PkgDir] = true
		}
	}
	if len(units) == 0 {
		fmt.Fprintf(os.Stderr, "broken check: no contract serves %s\n", prop)
		return 2
	}
	var dl []string
	for d := range dirs {
		dl = append(dl, d)
	}
	sort.Strings(dl)
	prog, err := LoadProgram(dl)
	if err != nil {
		fmt.Fprintln(os.Stderr, "broken check: cannot load /repo:", err)
		return 2
	}
	tLoad := time.Since(t0).Seconds()
	timeout := 20
	if *tier == "thorough" {
		timeout = 120
	}
	var obs []*Obligation
	var broken []string
	type unboundT struct{ name, reason string }
	var unbound []unboundT
	type unitInfo struct {
		ID, Range  string
		Stmts, Obs int
		Abstracted []string
	}
	var uinfos []unitInfo
	axioms := map[string]bool{}
	trusted := map[string]bool{}
	abstractedAll := map[string]bool{}
	results := make([]*UnitResult, len(units))
	var mu sync.Mutex
	// units are independent but share the (read-only) program; Exec instances do not share mutable state
	// except the package-level caches guarded here by running generation sequentially.
	// passes: the property itself plus its clause groups (tags "C02.a", "C02.b", ...): a group is verified in a
	// separate pass that sees only the untagged clauses and the group's own, which keeps each query small.
	passes := []string{prop}
	{
		seen := map[string]bool{}
		for _, u := range units {
			for t := range u.Tags {
				if strings.HasPrefix(t, prop+".") && !seen[t] {
					seen[t] = true
					passes = append(passes, t)
				}
			}
		}
		sort.Strings(passes[1:])
	}
	_ = results
	_ = mu
	entryPre := map[string]bool{}
	entryPreKey := map[string]string{}    // assumption text -> "UNIT.name"
	establishedBy := map[string]string{}  // "UNIT.name" -> unit that asserts it at the entry / call site
	modularNotes := map[string]bool{}
	sitesAt := map[string]map[token.Pos]string{} // "FUNC.name" -> call site -> verified caller asserting it there
	for _, u := range units {
		var ui unitInfo
		for pi, pass := range passes {
			if pi > 0 && !u.Tags[pass] {
				continue
			}
			activeProp = pass
			sel := pass // clause selection: the property itself, or the one named by "serves P as Q"
			if pi == 0 && u.As[prop] != "" {
				sel = u.As[prop]
				activeProp = sel
			}
			res := VerifyUnit(prog, cs, u)
			for ei, e := range res.Errors {
				unbound = append(unbound, unboundT{fmt.Sprintf("%s/%s/bind:%d", prop, u.ID(), ei+1), e})
			}
			if !u.Lemma && !u.Trusted {
				for _, r := range u.Requires {
					if on(r.Tags) {
						kind := "function"
						if u.Region != "" {
							kind = "region"
						}
						txt := fmt.Sprintf("entry precondition of %s %s, assumed at its entry (holds for a caller only where a call-pre obligation of a verified caller establishes it): %s: %s", kind, u.ID(), r.Name, r.Text)
						entryPre[txt] = true
						entryPreKey[txt] = u.ID() + "." + r.Name
					}
				}
			}
			n := 0
			for _, ob := range res.Obligations {
				if pi == 0 {
					if len(ob.Tags) == 0 || hasTag(ob.Tags, sel) {
						ob.Name = prop + "/" + ob.Name
						obs = append(obs, ob)
						n++
					}
				} else if len(ob.Tags) > 0 && hasTag(ob.Tags, pass) {
					ob.Name = prop + "/" + ob.Name
					obs = append(obs, ob)
					n++
				}
			}
			if pi == 0 {
				ui = unitInfo{ID: u.PkgDir + ":" + u.ID(), Range: res.SrcRange, Stmts: res.Stmts}
			}
			ui.Obs += n
			if res.Exec != nil {
				for a := range res.Exec.abstracted {
					if !abstractedAll[u.ID()+": "+a] {
						ui.Abstracted = append(ui.Abstracted, a)
					}
					abstractedAll[u.ID()+": "+a] = true
				}
				for a := range res.Exec.axioms {
					axioms[a] = true
				}
				for a := range res.Exec.trustedUsed {
					trusted[a] = true
				}
				for k := range res.Exec.established {
					establishedBy[k] = u.ID()
				}
				for k, sites := range res.Exec.establishedAt {
					if sitesAt[k] == nil {
						sitesAt[k] = map[token.Pos]string{}
					}
					for p := range sites {
						sitesAt[k][p] = u.ID()
					}
				}
				for k := range res.Exec.modularUsed {
					modularNotes[k] = true
				}
			}
		}
		sort.Strings(ui.Abstracted)
		if u.Trusted {
			trusted[u.ID()] = true
		}
		uinfos = append(uinfos, ui)
	}
	activeProp = ""
	if len(broken) > 0 {
		for _, b := range broken {
			fmt.Fprintln(os.Stderr, "broken check:", b)
		}
		return 2
	}
	tGen := time.Since(t0).Seconds() - tLoad
	rs := discharge(obs, timeout, *tier == "thorough")
	// expected obligations
	exp := loadExpected()
	if want, ok := exp[prop]; ok {
		have := map[string]bool{}
		for _, ob := range obs {
			have[ob.Name] = true
		}
		var missing []string
		for _, w := range want {
			if !have[w] {
				missing = append(missing, w)
			}
		}
		for _, m := range missing {
			unbound = append(unbound, unboundT{m, "obligation that is discharged on the unchanged tree could not be generated from the current source (the function, loop or statement its contract is anchored in has changed or disappeared)"})
		}
	}
	findings := loadFindings()
	isKnown := func(name string) *Finding {
		for i := range findings {
			if findings[i].Prop == prop && findings[i].Obligation == name {
				return &findings[i]
			}
		}
		return nil
	}
	os.MkdirAll(filepath.Join(outRoot(), "replay", prop), 0o755)
	violations := 0
	replayBudget := 6
	replayStart := time.Now()
	discharged := 0
	claimed := 0
	covers := 0
	var solverTime float64
	bySolver := map[string]int{}
	dischargedBy := map[string]string{}
	var known []string
	var samples []interface{}
	var failedNames []string
	for _, r := range rs {
		solverTime += r.Res.Seconds
		if r.Ob.Expect == "sat" {
			covers++
			if !r.OK {
				fmt.Fprintf(os.Stderr, "broken check: vacuous precondition: %s (%s)\n", r.Ob.Name, r.Res.Status)
				return 2
			}
			continue
		}
		if r.OK {
			claimed++
			discharged++
			bySolver[r.Res.Solver]++
			dischargedBy[r.Ob.Name] = fmt.Sprintf("%s %.2fs", r.Res.Solver, r.Res.Seconds)
			if len(samples) < 5 && !r.Ob.Goal.IsTrue() && (len(samples) < 2 || r.Ob.Kind == "post") {
				samples = append(samples, map[string]interface{}{"obligation": r.Ob.Name, "kind": r.Ob.Kind, "clause": r.Ob.Text, "at": r.Ob.Pos,
					"solver": r.Res.Solver, "seconds": r.Res.Seconds, "smt_goal": clip(termString(Not(r.Ob.Goal)), 600)})
			}
			continue
		}
		if f := isKnown(r.Ob.Name); f != nil {
			fmt.Printf("KNOWN-FINDING: property=%s %s %s\n", prop, r.Ob.Name, f.Text)
			known = append(known, r.Ob.Name)
			continue
		}
		claimed++
		violations++
		failedNames = append(failedNames, r.Ob.Name)
		path := filepath.Join(outRoot(), "replay", prop, sanitize(strings.TrimPrefix(r.Ob.Name, prop+"/"))+".json")
		replayBudget--
		var rep *Replay
		// replays are sequential and each may need several solver runs plus a `go test`: besides the count, the time
		// spent on them is bounded (quick tier: 4 minutes in total), so a check of a tree with many failing obligations ends
		if replayBudget >= 0 && (*tier == "thorough" || time.Since(replayStart) < 4*time.Minute) {
			rep = buildReplay(prog, cs, prop, r, timeout)
		} else {
			rep = &Replay{Property: prop, Obligation: r.Ob.Name, Kind: r.Ob.Kind, Clause: r.Ob.Text, At: r.Ob.Pos, Unit: r.Ob.Unit,
				Status: r.Res.Status, Solver: r.Res.Solver, Output: clip(r.Res.Raw, 4000), PerSolver: r.Res.All,
				Note: "obligation generated from /repo's current source was not discharged", ReplayLog: "no replay attempted: the replay budget of this check (6 obligations, 4 minutes in the quick tier) is used up"}
		}
		data, _ := json.MarshalIndent(rep, "", " ")
		os.WriteFile(path, data, 0o644)
		suffix := ""
		if !rep.Replayed {
			suffix = " no-failing-input-found"
		}
		fmt.Printf("VIOLATION property=%s replay=%s obligation=%s status=%s%s\n", prop, path, r.Ob.Name, r.Res.Status, suffix)
	}
	// obligations that could not even be generated from the current source: the proof no longer goes through
	for _, ub := range unbound {
		if f := isKnown(ub.name); f != nil {
			fmt.Printf("KNOWN-FINDING: property=%s %s %s\n", prop, ub.name, f.Text)
			known = append(known, ub.name)
			continue
		}
		claimed++
		violations++
		failedNames = append(failedNames, ub.name)
		path := filepath.Join(outRoot(), "replay", prop, sanitize(strings.TrimPrefix(ub.name, prop+"/"))+".json")
		rep := &Replay{Property: prop, Obligation: ub.name, Kind: "unbound", Clause: ub.reason, Status: "not-generated",
			Note: "the contract could not be bound to /repo's current source, so the obligation is undischarged; no counterexample exists for an obligation that was not generated"}
		data, _ := json.MarshalIndent(rep, "", " ")
		os.WriteFile(path, data, 0o644)
		fmt.Printf("VIOLATION property=%s replay=%s obligation=%s status=not-generated no-failing-input-found\n", prop, path, ub.name)
	}
	wall := time.Since(t0).Seconds()
	var ass []string
	ass = append(ass, baseTrusted...)
	var ax []string
	for a := range axioms {
		ax = append(ax, "math axiom used: "+a)
	}
	sort.Strings(ax)
	ass = append(ass, ax...)
	var tr []string
	for a := range trusted {
		if strings.Contains(a, "is assumed, not proved") {
			tr = append(tr, "assumed postcondition: "+a)
		} else if strings.Contains(a, ": assumed at ") {
			tr = append(tr, "explicit assumption: "+a)
		} else {
			tr = append(tr, "assumed (trusted) contract, body not verified: "+a)
		}
	}
	sort.Strings(tr)
	ass = append(ass, tr...)
	var ep []string
	// a function's precondition counts as established when every syntactic call site of the function asserts it
	for _, u := range units {
		if u.Region != "" || u.Lemma {
			continue
		}
		fu := prog.Lookup(u.PkgDir, u.Func)
		if fu == nil {
			continue
		}
		total := -2
		for _, r := range u.Requires {
			k := u.ID() + "." + r.Name
			if len(sitesAt[k]) == 0 {
				continue
			}
			if total == -2 {
				total = prog.callSites(fu)
			}
			if total > 0 && len(sitesAt[k]) >= total {
				callers := map[string]bool{}
				for _, c := range sitesAt[k] {
					callers[c] = true
				}
				var cl []string
				for c := range callers {
					cl = append(cl, c)
				}
				sort.Strings(cl)
				establishedBy[k] = strings.Join(cl, ", ") + fmt.Sprintf("; all %d call sites", total)
			}
		}
	}
	var est []string
	for a := range entryPre {
		if by, ok := establishedBy[entryPreKey[a]]; ok {
			// not an assumption in this check: asserted (as an obligation of unit `by`) where the region is entered / the function is called
			est = append(est, fmt.Sprintf("%s (obligation of %s)", entryPreKey[a], by))
			continue
		}
		ep = append(ep, a)
	}
	sort.Strings(ep)
	ass = append(ass, ep...)
	for a := range modularNotes {
		ass = append(ass, a)
	}
	sort.Strings(est)
	var ab []string
	for a := range abstractedAll {
		ab = append(ab, "abstracted: "+a)
	}
	sort.Strings(ab)
	ass = append(ass, ab...)
	ass = append(ass, extraAssumptions(prop)...)
	if len(samples) == 0 {
		samples = append(samples, "no non-trivial obligation")
	}
	ev := Evidence{PropertyID: prop, Tier: *tier, Seed: seed, Level: "proof", WallS: wall, Violations: violations, Assumptions: ass,
		Coverage: map[string]interface{}{
			"obligations":              claimed,
			"discharged":               discharged,
			"checker_cmd":              fmt.Sprintf("./bin/hvc check %s --tier %s", prop, *tier),
			"trusted_base":             baseTrusted,
			"functions_under_contract": uinfos,
			"preconditions_established_by_callers": est,
			"by_solver":                bySolver,
			"discharged_by":            dischargedBy,
			"solver_time_s":            solverTime,
			"load_s":                   tLoad,
			"vcgen_s":                  tGen,
			"vacuity_covers_sat":       covers,
			"known_findings":           known,
			"failed":                   failedNames,
			"samples":                  samples,
			"query_timeout_s":          timeout,
			"exhaustive":               false,
		}}
	// bounded stand-ins of this property (executed, labelled bounded, never counted as proved)
	var bounded []BoundedResult
	for _, spec := range loadBounded() {
		if spec.Property != prop {
			continue
		}
		br := runBounded(spec, *tier, seed)
		bounded = append(bounded, br)
		name := fmt.Sprintf("%s/bounded:%s", prop, spec.Name)
		if br.OK {
			continue
		}
		if f := isKnown(name); f != nil {
			fmt.Printf("KNOWN-FINDING: property=%s %s %s\n", prop, name, f.Text)
			known = append(known, name)
			continue
		}
		ev.Violations++
		path := filepath.Join(outRoot(), "replay", prop, sanitize("bounded_"+spec.Name)+".json")
		rep := &Replay{Property: prop, Obligation: name, Kind: "bounded", Clause: spec.What, Status: "failed", Replayed: br.Failures > 0,
			Note: "bounded stand-in executed on the real code: " + br.Bound, ReplayLog: br.First, Output: br.Output}
		data, _ := json.MarshalIndent(rep, "", " ")
		os.WriteFile(path, data, 0o644)
		suffix := ""
		if !rep.Replayed {
			suffix = " no-failing-input-found"
		}
		fmt.Printf("VIOLATION property=%s replay=%s obligation=%s status=bounded-check-failed first=%q%s\n", prop, path, name, br.First, suffix)
	}
	if len(bounded) > 0 {
		ev.Coverage["bounded"] = bounded
		ev.Coverage["known_findings"] = known
	}
	// thorough tier: encoder cross-check of every whole-function unit (proved clauses evaluated on the real code)
	if *tier == "thorough" && os.Getenv("HVC_REPO") == "" {
		var ccs []crossCheck
		seenUnit := map[string]bool{}
		for _, r := range rs {
			ob := r.Ob
			if ob.Kind != "cover" || ob.exec == nil || ob.exec.uc == nil || ob.exec.uc.Region != "" || ob.exec.uc.Lemma || ob.exec.unit == nil || ob.exec.unit.Lit != nil || seenUnit[ob.Unit] {
				continue
			}
			seenUnit[ob.Unit] = true
			ccs = append(ccs, encoderCrossCheck(prog, cs, prop, ob))
		}
		ev.Coverage["encoder_crosscheck"] = ccs
		for _, c := range ccs {
			if !c.Held {
				fmt.Fprintf(os.Stderr, "broken check: encoder cross-check: a clause proved for %s is observed false on the real function: %v\n", c.Unit, c.Failed)
				data, _ := json.MarshalIndent(ev, "", " ")
				os.WriteFile(filepath.Join(outRoot(), "evidence", prop+".json"), data, 0o644)
				return 2
			}
		}
	}
	// thorough tier: vacuity audit of the property's implication clauses (A ==> B with A unreachable proves nothing)
	if *tier == "thorough" {
		vr := vacuityAudit(prog, cs, []string{prop}, 10)
		ev.Coverage["vacuity_audit"] = vr
		if len(vr.Vacuous) > 0 {
			fmt.Fprintf(os.Stderr, "broken check: clauses of %s hold vacuously (antecedent unreachable): %v\n", prop, vr.Vacuous)
			data, _ := json.MarshalIndent(ev, "", " ")
			os.WriteFile(filepath.Join(outRoot(), "evidence", prop+".json"), data, 0o644)
			return 2
		}
	}
	// thorough tier: the must-fail corpus of this property (seeded changes on scratch copies; each must raise a violation)
	if *tier == "thorough" && os.Getenv("HVC_NO_SELFTEST") == "" && os.Getenv("HVC_REPO") == "" {
		st, allCaught := runSeeds(map[string]bool{prop: true})
		ev.Coverage["must_fail_corpus"] = st
		if !allCaught {
			fmt.Fprintf(os.Stderr, "broken check: a seeded change that breaks %s is not detected (vacuity guard, see evidence must_fail_corpus)\n", prop)
			data, _ := json.MarshalIndent(ev, "", " ")
			os.WriteFile(filepath.Join(outRoot(), "evidence", prop+".json"), data, 0o644)
			return 2
		}
	}
	os.MkdirAll(filepath.Join(outRoot(), "evidence"), 0o755)
	data, _ := json.MarshalIndent(ev, "", " ")
	os.WriteFile(filepath.Join(outRoot(), "evidence", prop+".json"), data, 0o644)
	fmt.Printf("%s: %d/%d obligations discharged, %d covers, %d known findings, %d violations (%.1fs: load %.1f, vcgen %.1f, solve %.1f cpu)\n",
		prop, discharged, claimed, covers, len(known), ev.Violations, wall, tLoad, tGen, solverTime)
	if ev.Violations > 0 {
		return 1
	}
	return 0
}

func clip(s string, n int) string {
	if len(s) > n {
		return s[:n] + " …"
	}
	return s
}

func loadExpected() map[string][]string {
	data, err := os.ReadFile(filepath.Join(contractsDir(), "expected_obligations.json"))
	if err != nil {
		return map[string][]string{}
	}
	m := map[string][]string{}
	json.Unmarshal(data, &m)
	return m
}

func cmdExpect(args []string) int {
	update := len(args) > 0 && args[0] == "--update"
	if update && os.Getenv("HVC_EXPECT_PASS") == "" {
		// two passes: the first records the loop/token baselines of the current source, the second names the obligations
		// against those baselines (a new loop would otherwise get a provisional ordinal in the recorded names)
		if self, err := os.Executable(); err == nil {
			c := exec.Command(self, "expect", "--update")
			c.Env = append(os.Environ(), "HVC_EXPECT_PASS=1")
			c.Run()
		}
	}
	prog, cs, err := loadAll(nil)
	if err != nil {
		fmt.Fprintln(os.Stderr, err)
		return 2
	}
	props := map[string]bool{}
	for _, u := range cs.Units {
		for t := range u.Tags {
			props[t] = true
		}
	}
	out := map[string][]string{}
	for _, u := range cs.Units {
		res := VerifyUnit(prog, cs, u)
		for _, e := range res.Errors {
			fmt.Fprintln(os.Stderr, "ERROR:", e)
		}
		for _, ob := range res.Obligations {
			if strings.HasPrefix(ob.Kind, "safety") || ob.Kind == "no-abort" {
				continue
			}
			for p := range u.Tags {
				q := p
				if u.As[p] != "" {
					q = u.As[p]
				}
				if len(ob.Tags) == 0 || hasTag(ob.Tags, q) {
					out[p] = append(out[p], p+"/"+ob.Name)
				}
			}
		}
	}
	for p := range out {
		sort.Strings(out[p])
	}
	if update {
		// baseline token text of every function under contract (used to recognise renamed locals later, anchor.go)
		base := map[string][]string{}
		for _, u := range cs.Units {
			if u.Lemma {
				continue
			}
			if fu := prog.Lookup(u.PkgDir, u.Func); fu != nil {
				key := u.PkgDir + ":" + u.Func
				if _, done := base[key]; !done {
					base[key] = tokensOfText(string(srcOf(prog, fu.Body)))
				}
			}
		}
		bd, _ := json.Marshal(base)
		os.WriteFile(filepath.Join(contractsDir(), "baseline_tokens.json"), bd, 0o644)
		// leading tokens of every loop of those functions, by ordinal (to follow a loop contract when ordinals shift)
		loops := map[string][][]string{}
		for _, u := range cs.Units {
			if u.Lemma {
				continue
			}
			if fu := prog.Lookup(u.PkgDir, u.Func); fu != nil {
				key := u.PkgDir + ":" + u.Func
				if _, done := loops[key]; !done {
					var hs [][]string
					for _, l := range loopsOf(fu.Body) {
						t := tokensOfText(string(srcOf(prog, l)))
						if len(t) > 28 {
							t = t[:28]
						}
						hs = append(hs, t)
					}
					loops[key] = hs
				}
			}
		}
		ld, _ := json.Marshal(loops)
		os.WriteFile(filepath.Join(contractsDir(), "baseline_loops.json"), ld, 0o644)
		data, _ := json.MarshalIndent(out, "", " ")
		os.WriteFile(filepath.Join(contractsDir(), "expected_obligations.json"), data, 0o644)
		fmt.Println("expected_obligations.json rewritten")
		return 0
	}
	old := loadExpected()
	diff := 0
	for p, names := range out {
		if strings.Join(names, "\n") != strings.Join(old[p], "\n") {
			fmt.Printf("%s differs: %d now, %d recorded\n", p, len(names), len(old[p]))
			diff++
		}
	}
	if diff > 0 {
		return 1
	}
	return 0
}
