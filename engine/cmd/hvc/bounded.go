package main

// Bounded stand-ins: functions outside the verifier's subset are executed (the real code, injected in-package
// test via `go test -overlay`, nothing written to the repository) over a stated bound. Labelled bounded,
// never counted as proved.

import (
	"encoding/json"
	"fmt"
	"os"
	"os/exec"
	"path/filepath"
	"regexp"
	"strconv"
	"strings"
	"time"
)

type BoundedSpec struct {
	Property      string `json:"property"`
	Name          string `json:"name"`
	PkgDir        string `json:"pkgdir"`
	File          string `json:"file"`
	Test          string `json:"test"`
	What          string `json:"what"`
	BoundQuick    string `json:"bound_quick"`
	BoundThorough string `json:"bound_thorough"`
}

type BoundedResult struct {
	Name     string  `json:"name"`
	What     string  `json:"what"`
	Bound    string  `json:"bound"`
	Cases    int     `json:"cases"`
	Failures int     `json:"failures"`
	First    string  `json:"first_failure,omitempty"`
	Seconds  float64 `json:"seconds"`
	Output   string  `json:"output,omitempty"`
	OK       bool    `json:"ok"`
}

func loadBounded() []BoundedSpec {
	data, err := os.ReadFile(filepath.Join(verifRoot, "bounded", "manifest.json"))
	if err != nil {
		return nil
	}
	var out []BoundedSpec
	json.Unmarshal(data, &out)
	return out
}

// repoTestEnv: the repository's own test environment (workspace mode, no -mod flag), offline.
func repoTestEnv(extra ...string) []string {
	var env []string
	for _, e := range os.Environ() {
		if strings.HasPrefix(e, "GOFLAGS=") || strings.HasPrefix(e, "GOWORK=") {
			continue
		}
		env = append(env, e)
	}
	env = append(env, "GOPROXY=off", "GOSUMDB=off", "GOTOOLCHAIN=local")
	return append(env, extra...)
}

// runInjectedTest overlays src as an in-package test file of <repo>/<pkgdir> and runs one test.
func runInjectedTest(pkgdir, src, testName string, timeout time.Duration, env ...string) (string, error) {
	dir := filepath.Join(repoRoot, pkgdir)
	target := filepath.Join(dir, "zz_hvc_injected_test.go")
	ov := map[string]map[string]string{"Replace": {target: src}}
	data, _ := json.Marshal(ov)
	ovFile := filepath.Join(scratch(), fmt.Sprintf("overlay%d.json", time.Now().UnixNano()))
	os.WriteFile(ovFile, data, 0o644)
	defer os.Remove(ovFile)
	cmd := exec.Command("go", "test", "-overlay", ovFile, "-vet=off", "-count=1", "-v", "-timeout", fmt.Sprintf("%ds", int(timeout.Seconds())), "-run", "^"+testName+"$", ".")
	cmd.Dir = dir
	cmd.Env = repoTestEnv(env...)
	out, err := cmd.CombinedOutput()
	return string(out), err
}

var boundedLine = regexp.MustCompile(`BOUNDED name=(\S+) cases=(\d+) failures=(\d+) bound=(\S+) first=(.*)`)

func runBounded(spec BoundedSpec, tier string, seed int) BoundedResult {
	t0 := time.Now()
	res := BoundedResult{Name: spec.Name, What: spec.What, Bound: spec.BoundQuick}
	if tier == "thorough" {
		res.Bound = spec.BoundThorough
	}
	to := 5 * time.Minute
	if tier == "thorough" {
		to = 30 * time.Minute
	}
	out, err := runInjectedTest(spec.PkgDir, filepath.Join(verifRoot, "bounded", spec.File), spec.Test, to, "HVC_BOUND="+tier, "HVC_SEED="+strconv.Itoa(seed))
	res.Seconds = time.Since(t0).Seconds()
	if m := boundedLine.FindStringSubmatch(out); m != nil {
		res.Cases, _ = strconv.Atoi(m[2])
		res.Failures, _ = strconv.Atoi(m[3])
		res.First = strings.TrimSpace(m[5])
	}
	res.OK = err == nil && res.Cases > 0 && res.Failures == 0
	if !res.OK {
		res.Output = clip(out, 3000)
	}
	return res
}
