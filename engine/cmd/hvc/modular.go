package main

// Modular composition inside one function.
//
//   uses REGION[: names]      (in a region unit U of the same function)
//     When the symbolic execution of U reaches the first statement of REGION, the region is treated like a call of a
//     function under contract: its (named) preconditions are asserted as obligations "U/region-pre:REGION.name", the
//     preconditions that are not named are assumed (they stay listed as entry assumptions of REGION), everything the
//     region's statements may write is havoced (write set found by dry execution of the real statements), and all
//     postconditions of REGION are assumed. REGION's own check proves those postconditions from its preconditions, so a
//     caller is checked against the region's contract, not its body.
//   establishes FUNC: names   (FUNC is listed under `opaque`)
//     The named preconditions of FUNC are asserted at every call of FUNC in U ("U/call-pre:FUNC.name@n"); the call is
//     still havoced by its inferred write set only (its postconditions are not used).

import (
	"fmt"
	"go/ast"
	"go/token"
	"go/types"
	"sort"
	"strings"
)

type partialUse struct {
	pre, post *UseRef
}

func (x *Exec) modularNote(n string) {
	if x.modularUsed == nil {
		x.modularUsed = map[string]bool{}
	}
	x.modularUsed[n] = true
}

type subRegion struct {
	uc    *UnitContract
	use   *UseRef
	stmts []ast.Stmt
}

func mentionsAny(e ast.Expr, names map[string]bool) bool {
	if len(names) == 0 {
		return false
	}
	found := false
	ast.Inspect(e, func(n ast.Node) bool {
		if id, ok := n.(*ast.Ident); ok && names[id.Name] {
			found = true
		}
		return !found
	})
	return found
}

// resolveUses binds the sub-regions named by `uses` to their statements (same anchors, same matching as their own check).
func (x *Exec) resolveUses(fu *FuncUnit) []string {
	var errs []string
	x.subRegions = map[ast.Stmt]*subRegion{}
	for _, ur := range x.uc.Uses {
		r := x.cs.Get(x.uc.PkgDir, ur.Target)
		if r == nil || r.Region == "" || r.Func != x.uc.Func {
			errs = append(errs, fmt.Sprintf("%s: uses %s: no region contract of that name in %s", x.uc.ID(), ur.Target, x.uc.Func))
			continue
		}
		stmts, err := findRegion(x, fu, r)
		if err != nil || len(stmts) == 0 {
			errs = append(errs, fmt.Sprintf("contract cannot bind: %s: uses %s: %v", x.uc.ID(), ur.Target, err))
			continue
		}
		for _, n := range ur.Names {
			ok := n == "-"
			for _, c := range r.Requires {
				if c.Name == n {
					ok = true
				}
			}
			if !ok {
				errs = append(errs, fmt.Sprintf("%s: uses %s: it has no precondition named %s", x.uc.ID(), ur.Target, n))
			}
		}
		x.subRegions[stmts[0]] = &subRegion{uc: r, use: ur, stmts: stmts}
	}
	return errs
}

func (x *Exec) noteEstablished(target, name string) {
	if x.established == nil {
		x.established = map[string]bool{}
	}
	x.established[target+"."+name] = true
}

// noteEstablishedAt: a precondition of a FUNCTION asserted at one call site (the evidence counts a function's
// precondition as established only when every call site of the function in the loaded packages asserts it).
func (x *Exec) noteEstablishedAt(target, name string, pos token.Pos) {
	if x.establishedAt == nil {
		x.establishedAt = map[string]map[token.Pos]bool{}
	}
	k := target + "." + name
	if x.establishedAt[k] == nil {
		x.establishedAt[k] = map[token.Pos]bool{}
	}
	x.establishedAt[k][pos] = true
}

// callSites: number of syntactic calls of the function in the loaded packages (the unit's own package directory).
func (prog *Program) callSites(fu *FuncUnit) int {
	var obj types.Object
	for o, u := range prog.ByObj {
		if u == fu {
			obj = o
		}
	}
	if obj == nil {
		return -1
	}
	n := 0
	for _, pkg := range prog.Pkgs {
		for _, f := range pkg.Syntax {
			ast.Inspect(f, func(nd ast.Node) bool {
				ce, ok := nd.(*ast.CallExpr)
				if !ok {
					return true
				}
				var id *ast.Ident
				switch fn := ce.Fun.(type) {
				case *ast.Ident:
					id = fn
				case *ast.SelectorExpr:
					id = fn.Sel
				}
				if id != nil && pkg.TypesInfo.Uses[id] == obj {
					n++
				}
				return true
			})
		}
	}
	return n
}

// execSubRegion: assert/assume requires, havoc the write set of the real statements, assume ensures.
func (x *Exec) execSubRegion(sr *subRegion, st *State) Outcomes {
	r := sr.uc
	var out Outcomes
	ghosts := map[string]bool{}
	for _, g := range r.Ghosts {
		ghosts[g.Name] = true
	}
	first, last := sr.stmts[0], sr.stmts[len(sr.stmts)-1]
	mkCtx := func(pos token.Pos) *SpecCtx {
		sp := x.specCtxAt(pos, nil)
		sp.macros = append([]map[string]*Macro{r.Macros}, sp.macros...)
		return sp
	}
	hooks := len(x.uc.AtStmts) > 0
	if hooks {
		// ghost updates / assertions of the using unit anchored BEFORE the region's first statement
		x.runStmtHooks(first, normWS(x.src(first)), st, true)
	}
	spIn := mkCtx(first.Pos())
	for _, c := range r.Requires {
		if mentionsAny(c.Expr, ghosts) {
			continue
		}
		if !sr.use.wants(c.Name) {
			// not established here: stays an entry assumption of the region (listed by the region's own check)
			x.assume(st, x.specBool(c, st, spIn), "region-assumed:"+r.Region+"."+c.Name)
			continue
		}
		if !on(c.Tags) {
			continue
		}
		x.assert(st, x.specBool(c, st, spIn), "region-pre", fmt.Sprintf("%s/region-pre:%s.%s", x.uc.ID(), r.Region, c.Name), c.Tags, first.Pos(), "precondition of region "+r.ID()+": "+c.Text)
		x.noteEstablished(r.ID(), c.Name)
	}
	oldSt := st.clone()
	// write set of the region's real statements (dry execution; callees by contract/inferred write sets as usual)
	mod := map[string]bool{}
	var hasRet bool
	var breaks, conts []Jump
	{
		saved := x.subRegions
		x.subRegions = nil
		x.dry++
		savedAss, savedObs, savedErr := len(x.assumptions), len(x.obligations), len(x.errs)
		t := st.clone()
		base := t.clone()
		o := x.execBlock(sr.stmts, t)
		x.diffKeys(base, o.Normal, mod)
		for _, rr := range o.Rets {
			x.diffKeys(base, rr.St, mod)
			hasRet = true
		}
		for _, j := range append(append([]Jump{}, o.Breaks...), o.Conts...) {
			x.diffKeys(base, j.St, mod)
		}
		breaks, conts = o.Breaks, o.Conts
		x.dry--
		x.assumptions = x.assumptions[:savedAss]
		x.obligations = x.obligations[:savedObs]
		x.errs = x.errs[:savedErr]
		x.onceAssumed = nil
		x.subRegions = saved
	}
	x.havocSet(st, mod)
	if hasRet {
		// the region may end the function (error paths): nothing is known about that state beyond the havoc
		out.Rets = append(out.Rets, Ret{St: st.clone()})
	}
	spOut := mkCtx(last.End())
	spOut.old = oldSt
	var tagsUsed []string
	seenTag := map[string]bool{}
	assumeEns := func(target *State, cl []*Clause) {
		for _, en := range cl {
			if en.Assumed || mentionsAny(en.Expr, ghosts) {
				continue
			}
			x.assume(target, x.specBool(en, target, spOut), "region-ensures:"+r.Region+"."+en.Name)
			for _, tg := range en.Tags {
				if !seenTag[tg] {
					seenTag[tg] = true
					tagsUsed = append(tagsUsed, tg)
				}
			}
		}
	}
	// break/continue leaving the region: its exit postconditions hold there
	for _, j := range breaks {
		js := st.clone()
		assumeEns(js, r.ExitEnsures)
		out.Breaks = append(out.Breaks, Jump{Label: j.Label, St: js})
	}
	for _, j := range conts {
		js := st.clone()
		assumeEns(js, r.ExitEnsures)
		out.Conts = append(out.Conts, Jump{Label: j.Label, St: js})
	}
	assumeEns(st, r.Ensures)
	assumeEns(st, r.ExitEnsures)
	sort.Strings(tagsUsed)
	if x.modularUsed == nil {
		x.modularUsed = map[string]bool{}
	}
	note := "modular use of region " + r.ID() + ": its postconditions are assumed here and discharged by the region's own obligations"
	if len(tagsUsed) > 0 {
		note += " (clauses tagged " + strings.Join(tagsUsed, ", ") + " in the checks of those properties)"
	}
	x.modularUsed[note] = true
	if hooks {
		// ... and AFTER its last statement (hooks anchored inside the region are not run: its statements are not executed)
		x.runStmtHooks(last, normWS(x.src(last)), st, false)
	}
	out.Normal = st
	return out
}

// establishCallPre: the named preconditions of an opaque callee are asserted at the call.
func (x *Exec) establishCallPre(fu *FuncUnit, uc *UnitContract, recv *Value, args []Value, e ast.Node, st *State) {
	var ur *UseRef
	for _, u := range x.uc.Establishes {
		if u.Target == fu.Name {
			ur = u
		}
	}
	if ur == nil || uc == nil {
		return
	}
	ord := 0
	if ce, ok := e.(*ast.CallExpr); ok {
		ord = x.callOrd[ce]
	}
	bind := x.bindParams(fu, recv, args, st, false)
	sp := &SpecCtx{bound: bind, macros: []map[string]*Macro{uc.Macros, x.cs.Global}, pkg: fu.Pkg.Types, scope: fu.Pkg.Types.Scope(), pos: token.NoPos}
	ghosts := map[string]bool{}
	for _, g := range uc.Ghosts {
		ghosts[g.Name] = true
	}
	savedInfo, savedPkg := x.info, x.pkg
	x.pkg = fu.Pkg.Types
	defer func() { x.info, x.pkg = savedInfo, savedPkg }()
	for _, c := range uc.Requires {
		if !ur.wants(c.Name) || !on(c.Tags) || mentionsAny(c.Expr, ghosts) {
			continue
		}
		x.assert(st, x.specBool(c, st, sp), "call-pre", fmt.Sprintf("%s/call-pre:%s.%s@%d", x.uc.ID(), fu.Name, c.Name, ord), c.Tags, e.Pos(), "precondition of "+fu.Name+": "+c.Text)
		if x.dry == 0 {
			x.noteEstablishedAt(uc.ID(), c.Name, e.Pos())
		}
	}
}
