package main

func runSelftest(args []string) int { return 0 }
