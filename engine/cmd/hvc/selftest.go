package main

// hvc selftest [PROP...]: the must-fail corpus. Every confirmed seeded change under /verif/seeded/<id>/ is applied to a
// scratch copy of /repo (outside /repo and /verif, removed immediately) and the check of its property is run against
// that copy: it must report at least one VIOLATION. Guards against vacuity holes in the engine or the contracts.

import (
	"encoding/json"
	"fmt"
	"os"
	"os/exec"
	"path/filepath"
	"sort"
	"strconv"
	"strings"
	"sync"
)

type seedMeta struct {
	ID             string `json:"id"`
	Property       string `json:"property"`
	Confirmed      bool   `json:"confirmed"`
	ExpectedMissed bool   `json:"expected_missed"` // outside the reach of the contracts (documented); reported, not required
}

type selftestResult struct {
	Seed       string `json:"seed"`
	Property   string `json:"property"`
	Caught     bool   `json:"caught"`
	Violations int    `json:"violations"`
	First      string `json:"first_obligation"`
	Note       string `json:"note,omitempty"`
}

func runSeeds(props map[string]bool) ([]selftestResult, bool) {
	dirs, _ := filepath.Glob(filepath.Join(verifRoot, "seeded", "*", "meta.json"))
	sort.Strings(dirs)
	self, _ := os.Executable()
	var out []selftestResult
	allCaught := true
	type job struct {
		m     seedMeta
		patch string
	}
	var jobs []job
	for _, mf := range dirs {
		var m seedMeta
		data, err := os.ReadFile(mf)
		if err != nil || json.Unmarshal(data, &m) != nil || !m.Confirmed || m.ExpectedMissed {
			continue
		}
		jobs = append(jobs, job{m, filepath.Join(filepath.Dir(mf), "patch.diff")})
	}
	// own probes: selftest/mutants/<name>.patch with <name>.prop naming the property whose check must fail
	own, _ := filepath.Glob(filepath.Join(verifRoot, "selftest", "mutants", "*.patch"))
	sort.Strings(own)
	for _, pf := range own {
		pb, err := os.ReadFile(strings.TrimSuffix(pf, ".patch") + ".prop")
		if err != nil {
			continue
		}
		jobs = append(jobs, job{seedMeta{ID: "own:" + strings.TrimSuffix(filepath.Base(pf), ".patch"), Property: strings.TrimSpace(string(pb)), Confirmed: true}, pf})
	}
	var active []job
	for _, jb := range jobs {
		if len(props) > 0 && !props[jb.m.Property] {
			continue
		}
		active = append(active, jb)
	}
	results := make([]selftestResult, len(active))
	workers := 4
	if v, err := strconv.Atoi(os.Getenv("HVC_SELFTEST_WORKERS")); err == nil && v > 0 {
		workers = v
	}
	sem := make(chan struct{}, workers)
	var wg sync.WaitGroup
	for i, jb := range active {
		wg.Add(1)
		go func(i int, jb job) {
			defer wg.Done()
			sem <- struct{}{}
			defer func() { <-sem }()
			results[i] = runOneSeed(self, jb.m, jb.patch)
		}(i, jb)
	}
	wg.Wait()
	for _, r := range results {
		if !r.Caught {
			allCaught = false
		}
		out = append(out, r)
	}
	return out, allCaught
}

func runOneSeed(self string, m seedMeta, mf string) selftestResult {
	r := selftestResult{Seed: m.ID, Property: m.Property}
	scr, err := os.MkdirTemp("", "hvc-selftest-")
	if err != nil {
		r.Note = err.Error()
		return r
	}
	outDir, _ := os.MkdirTemp("", "hvc-selftest-out-")
	defer os.RemoveAll(scr)
	defer os.RemoveAll(outDir)
	if b, err := exec.Command("rsync", "-a", "--exclude", ".git", "--exclude", "doc", repoRoot+"/", scr+"/").CombinedOutput(); err != nil {
		r.Note = "copy failed: " + string(b)
		return r
	}
	p := exec.Command("patch", "-s", "-p1", "--no-backup-if-mismatch", "-i", mf)
	p.Dir = scr
	if b, err := p.CombinedOutput(); err != nil {
		r.Note = "patch does not apply to the current tree: " + clip(string(b), 200)
		return r
	}
	c := exec.Command(self, "check", m.Property, "--tier", "quick")
	c.Env = append(os.Environ(), "HVC_REPO="+scr, "HVC_OUT="+outDir, "HVC_NO_SELFTEST=1", "HVC_SCRATCH="+filepath.Join(outDir, "scratch"))
	b, _ := c.CombinedOutput()
	for _, l := range strings.Split(string(b), "\n") {
		if strings.HasPrefix(l, "VIOLATION") {
			r.Violations++
			if r.First == "" {
				if i := strings.Index(l, "obligation="); i >= 0 {
					r.First = strings.Fields(l[i+len("obligation="):])[0]
				}
			}
		}
	}
	r.Caught = r.Violations > 0
	return r
}

func runSelftest(args []string) int {
	props := map[string]bool{}
	for _, a := range args {
		props[a] = true
	}
	res, ok := runSeeds(props)
	for _, r := range res {
		mark := "caught"
		if !r.Caught {
			mark = "MISSED"
		}
		fmt.Printf("%-8s %-6s %s violations=%d %s %s\n", r.Seed, r.Property, mark, r.Violations, r.First, r.Note)
	}
	fmt.Printf("%d seeded changes, all caught: %v\n", len(res), ok)
	if !ok {
		return 1
	}
	return 0
}
