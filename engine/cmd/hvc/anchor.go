package main

// Anchor matching. An anchor is the source text a statement starts with. Matching is done on Go tokens (comments and
// layout are irrelevant). If NO statement of the function starts with the anchor's tokens, the anchor is re-bound to
// the unique statement whose leading tokens are most similar (drift tolerance for harmless edits such as a renamed local,
// `x = x + y` -> `x += y`, a reformatted or slightly extended condition); the re-binding is recorded in the evidence
// ("abstracted: anchor re-bound ..."). Whatever the anchor binds to, the obligations of the contract decide.

import (
	"encoding/json"
	"go/ast"
	"go/scanner"
	"go/token"
	"os"
	"path/filepath"
	"strings"
)

var tokenCache = map[string][]string{}

func tokensOfText(src string) []string {
	if t, ok := tokenCache[src]; ok {
		return t
	}
	var s scanner.Scanner
	fset := token.NewFileSet()
	file := fset.AddFile("", fset.Base(), len(src))
	s.Init(file, []byte(src), nil, 0)
	var out []string
	for {
		_, tok, lit := s.Scan()
		if tok == token.EOF {
			break
		}
		if tok == token.SEMICOLON && lit == "\n" {
			continue
		}
		if lit != "" {
			out = append(out, lit)
		} else {
			out = append(out, tok.String())
		}
	}
	tokenCache[src] = out
	return out
}

func tokenPrefix(stmt, anchor []string) bool {
	if len(anchor) == 0 || len(anchor) > len(stmt) {
		return false
	}
	for i, a := range anchor {
		if stmt[i] != a {
			return false
		}
	}
	return true
}

func lcsLen(a, b []string) int {
	prev := make([]int, len(b)+1)
	cur := make([]int, len(b)+1)
	for i := 1; i <= len(a); i++ {
		for j := 1; j <= len(b); j++ {
			if a[i-1] == b[j-1] {
				cur[j] = prev[j-1] + 1
			} else if prev[j] >= cur[j-1] {
				cur[j] = prev[j]
			} else {
				cur[j] = cur[j-1]
			}
		}
		prev, cur = cur, prev
	}
	return prev[len(b)]
}

func tokenSimilarity(stmt, anchor []string) float64 {
	n := len(anchor)
	if n > len(stmt) {
		n = len(stmt)
	}
	if n == 0 || len(anchor) == 0 {
		return 0
	}
	head := stmt[:n]
	l := lcsLen(head, anchor)
	return 2 * float64(l) / float64(len(head)+len(anchor))
}

// unitStmts: every statement of the unit's function body (closures inside it excluded).
func (x *Exec) unitStmts() []ast.Stmt {
	if x.allStmts != nil {
		return x.allStmts
	}
	fu := x.unit
	ast.Inspect(fu.Body, func(n ast.Node) bool {
		if fl, ok := n.(*ast.FuncLit); ok && fl.Body != fu.Body {
			return false
		}
		if st, ok := n.(ast.Stmt); ok {
			if _, isBlock := st.(*ast.BlockStmt); !isBlock {
				x.allStmts = append(x.allStmts, st)
			}
		}
		return true
	})
	return x.allStmts
}

// anchorMatches: does statement s carry the anchor (exactly, or by re-binding when nothing matches exactly)?
func (x *Exec) anchorMatches(s ast.Node, anchor string) bool {
	at := tokensOfText(anchor)
	x.learnRenames()
	if len(x.renames) > 0 {
		// the anchor text with the renames of locals applied
		changed := false
		at2 := make([]string, len(at))
		for i, t := range at {
			if nn, ok := x.renames[t]; ok {
				at2[i] = nn
				changed = true
			} else {
				at2[i] = t
			}
		}
		if changed && tokenPrefix(tokensOfText(x.src(s)), at2) {
			return true
		}
	}
	if tokenPrefix(tokensOfText(x.src(s)), at) {
		return true
	}
	if x.unit == nil || x.curFuncDepth() > 0 {
		return false
	}
	target, ok := x.rebound[anchor]
	if !ok {
		if x.rebound == nil {
			x.rebound = map[string]ast.Node{}
		}
		// any exact match anywhere in the function? then no re-binding
		exact := false
		var best ast.Stmt
		bestScore, second := 0.0, 0.0
		for _, st := range x.unitStmts() {
			toks := tokensOfText(x.src(st))
			if tokenPrefix(toks, at) {
				exact = true
				break
			}
			sc := tokenSimilarity(toks, at)
			if sc > bestScore {
				second = bestScore
				bestScore, best = sc, st
			} else if sc > second {
				second = sc
			}
		}
		target = nil
		if !exact && best != nil && len(at) >= 4 && ((bestScore >= 0.72 && bestScore-second >= 0.08) || (len(at) >= 12 && bestScore >= 0.55 && bestScore-second >= 0.15)) {
			target = best
			// learn identifier renames: same token count, differing tokens are identifiers, consistently mapped
			bt := tokensOfText(x.src(best))
			if len(bt) >= len(at) {
				m := map[string]string{}
				okMap := true
				for i := range at {
					if at[i] == bt[i] {
						continue
					}
					if !isIdentTok(at[i]) || !isIdentTok(bt[i]) {
						okMap = false
						break
					}
					if prev, seen := m[at[i]]; seen && prev != bt[i] {
						okMap = false
						break
					}
					m[at[i]] = bt[i]
				}
				if okMap {
					if x.renames == nil {
						x.renames = map[string]string{}
					}
					for a, b := range m {
						x.renames[a] = b
					}
				}
			}
			x.abstract("anchor re-bound (no statement starts with it any more): \"" + clip(anchor, 60) + "\" -> " + x.prog.pos(best.Pos()) + " \"" + clip(normWS(x.src(best)), 60) + "\"")
		}
		x.rebound[anchor] = target
	}
	return target != nil && target == s
}

func (x *Exec) curFuncDepth() int { return x.inlineDepth }

func normWSKeep(s string) string { return strings.Join(strings.Fields(s), " ") }

func isIdentTok(t string) bool {
	if t == "" {
		return false
	}
	c := t[0]
	if !(c == '_' || c >= 'a' && c <= 'z' || c >= 'A' && c <= 'Z') {
		return false
	}
	return token.Lookup(t) == token.IDENT
}

func srcOf(prog *Program, n ast.Node) []byte {
	ps := prog.Fset.Position(n.Pos())
	pe := prog.Fset.Position(n.End())
	data, err := os.ReadFile(ps.Filename)
	if err != nil || pe.Offset > len(data) || ps.Offset > pe.Offset {
		return nil
	}
	return data[ps.Offset:pe.Offset]
}

var baselineTokens map[string][]string
var baselineLoaded bool

// learnRenames compares the function's identifiers with the baseline recorded on the unchanged tree
// (contracts/baseline_tokens.json): an identifier that vanished and an identifier that is new, whose first occurrences
// stand in the same token context, are taken to be a renamed local. Used for contract identifiers and anchors only;
// the obligations are generated from the current source as always.
func (x *Exec) learnRenames() {
	if x.renamesLearned || x.unit == nil {
		return
	}
	x.renamesLearned = true
	if !baselineLoaded {
		baselineLoaded = true
		data, err := os.ReadFile(filepath.Join(contractsDir(), "baseline_tokens.json"))
		if err == nil {
			json.Unmarshal(data, &baselineTokens)
		}
	}
	if x.uc == nil {
		return
	}
	base := baselineTokens[x.uc.PkgDir+":"+x.unit.Name]
	if base == nil {
		return
	}
	cur := tokensOfText(x.src(x.unit.Body))
	first := func(toks []string) map[string]int {
		m := map[string]int{}
		for i, t := range toks {
			if isIdentTok(t) {
				if _, ok := m[t]; !ok {
					m[t] = i
				}
			}
		}
		return m
	}
	fb, fc := first(base), first(cur)
	ctx := func(toks []string, i int, other map[string]int, ren map[string]string) string {
		var parts []string
		for d := -3; d <= 3; d++ {
			if d == 0 || i+d < 0 || i+d >= len(toks) {
				continue
			}
			t := toks[i+d]
			if isIdentTok(t) {
				if _, known := other[t]; !known {
					t = "?" // itself a renamed/new identifier
				}
			}
			parts = append(parts, t)
		}
		return strings.Join(parts, " ")
	}
	var vanished, fresh []string
	for t := range fb {
		if _, ok := fc[t]; !ok {
			vanished = append(vanished, t)
		}
	}
	for t := range fc {
		if _, ok := fb[t]; !ok {
			fresh = append(fresh, t)
		}
	}
	if len(vanished) == 0 || len(vanished) > 12 {
		return
	}
	for _, v := range vanished {
		cv := ctx(base, fb[v], fc, nil)
		match := ""
		n := 0
		for _, f := range fresh {
			if ctx(cur, fc[f], fb, nil) == cv {
				match = f
				n++
			}
		}
		if n == 1 {
			if x.renames == nil {
				x.renames = map[string]string{}
			}
			if _, have := x.renames[v]; !have {
				x.renames[v] = match
				x.abstract("local " + v + " of the baseline source appears renamed to " + match)
			}
		}
	}
}

var baselineLoops map[string][][]string
var baselineLoopsLoaded bool

// baselineOrdinal maps a loop of the current source to the ordinal it had when the contracts were written, by comparing
// the leading tokens of the loops (renames applied): identical sequences of loop heads are matched in order; a loop
// whose head does not occur in the baseline keeps no contract. If the function's loops are unchanged this is the identity.
func (x *Exec) baselineOrdinal(s ast.Stmt, ord int) int {
	if x.loopMap == nil {
		x.loopMap = map[ast.Stmt]int{}
		if !baselineLoopsLoaded {
			baselineLoopsLoaded = true
			if data, err := os.ReadFile(filepath.Join(contractsDir(), "baseline_loops.json")); err == nil {
				json.Unmarshal(data, &baselineLoops)
			}
		}
		if x.uc == nil || x.unit == nil {
			return 0
		}
		base := baselineLoops[x.uc.PkgDir+":"+x.unit.Name]
		cur := loopsOf(x.unit.Body)
		if base == nil {
			return 0
		}
		x.learnRenames()
		inv := map[string]string{}
		for a, b := range x.renames {
			inv[b] = a
		}
		head := func(l ast.Stmt) []string {
			t := tokensOfText(x.src(l))
			if len(t) > 28 {
				t = t[:28]
			}
			out := make([]string, len(t))
			for i, tk := range t {
				if o, ok := inv[tk]; ok {
					out[i] = o
				} else {
					out[i] = tk
				}
			}
			return out
		}
		same := true
		if len(base) != len(cur) {
			same = false
		}
		heads := make([][]string, len(cur))
		for i, l := range cur {
			heads[i] = head(l)
			if same && strings.Join(heads[i], " ") != strings.Join(base[i], " ") {
				same = false
			}
		}
		if same {
			return 0
		}
		// LCS alignment of the two sequences of loop heads (equality of heads, or high similarity)
		eq := func(i, j int) bool {
			a, b := heads[i], base[j]
			if strings.Join(a, " ") == strings.Join(b, " ") {
				return true
			}
			n := len(a)
			if len(b) < n {
				n = len(b)
			}
			if n < 8 {
				return false
			}
			return 2*float64(lcsLen(a, b))/float64(len(a)+len(b)) >= 0.85
		}
		n, m := len(cur), len(base)
		dp := make([][]int, n+1)
		for i := range dp {
			dp[i] = make([]int, m+1)
		}
		for i := n - 1; i >= 0; i-- {
			for j := m - 1; j >= 0; j-- {
				if eq(i, j) {
					dp[i][j] = dp[i+1][j+1] + 1
				} else if dp[i+1][j] >= dp[i][j+1] {
					dp[i][j] = dp[i+1][j]
				} else {
					dp[i][j] = dp[i][j+1]
				}
			}
		}
		i, j := 0, 0
		for i < n && j < m {
			if eq(i, j) && dp[i][j] == dp[i+1][j+1]+1 {
				x.loopMap[cur[i]] = j + 1
				i++
				j++
			} else if dp[i+1][j] >= dp[i][j+1] {
				x.loopMap[cur[i]] = -1
				i++
			} else {
				j++
			}
		}
		for ; i < n; i++ {
			x.loopMap[cur[i]] = -1
		}
		// gaps of equal length between matched neighbours are matched by position (a loop whose head was edited)
		usedBase := map[int]bool{}
		for _, l := range cur {
			if v := x.loopMap[l]; v > 0 {
				usedBase[v] = true
			}
		}
		pi, pj := -1, 0 // index of the previous matched current loop, its baseline ordinal
		flush := func(ci, bj int) {
			// unmatched current loops pi+1..ci-1, unmatched baseline ordinals pj+1..bj-1
			if ci-pi-1 > 0 && ci-pi-1 == bj-pj-1 {
				for k := 1; k < ci-pi; k++ {
					x.loopMap[cur[pi+k]] = pj + k
				}
			}
		}
		for ci, l := range cur {
			if v := x.loopMap[l]; v > 0 {
				flush(ci, v)
				pi, pj = ci, v
			}
		}
		flush(n, m+1)
		x.abstract("the loops of " + x.unit.Name + " differ from the baseline source: loop contracts follow the loops by their leading tokens")
	}
	if v, ok := x.loopMap[s]; ok {
		if v == -1 {
			return 100000 + ord // a loop that did not exist in the baseline: no contract
		}
		return v
	}
	return 0
}
