package main

// Loading of the real code: go/packages (type-checked syntax) from /repo's working tree.

import (
	"fmt"
	"go/ast"
	"go/token"
	"go/types"
	"os"
	"path/filepath"
	"sort"
	"strings"

	"golang.org/x/tools/go/packages"
)

var repoRoot = "/repo"
var verifRoot = "/verif"

// Unit is a function body under verification (a FuncDecl or a FuncLit).
type FuncUnit struct {
	Name string // "Water", "OutputConfig.WriteLine", "Run$1"
	Pkg  *packages.Package
	Decl *ast.FuncDecl // enclosing declaration
	Lit  *ast.FuncLit  // non-nil for closures
	Type *ast.FuncType
	Body *ast.BlockStmt
	Sig  *types.Signature
	Recv *types.Var
	File string
}

type Program struct {
	Fset  *token.FileSet
	Pkgs  map[string]*packages.Package    // by directory relative to repo root ("hermes", "src/calcHermesBatch")
	Funcs map[string]map[string]*FuncUnit // pkgdir -> name -> unit
	// by types.Func object for call resolution
	ByObj map[*types.Func]*FuncUnit
}

func goEnv() []string {
	env := os.Environ()
	env = append(env, "GOFLAGS=-mod=mod", "GOPROXY=off", "GOSUMDB=off", "GOTOOLCHAIN=local", "GOWORK=off")
	return env
}

func LoadProgram(dirs []string) (*Program, error) {
	prog := &Program{Fset: token.NewFileSet(), Pkgs: map[string]*packages.Package{}, Funcs: map[string]map[string]*FuncUnit{}, ByObj: map[*types.Func]*FuncUnit{}}
	for _, d := range dirs {
		cfg := &packages.Config{
			Mode: packages.NeedName | packages.NeedFiles | packages.NeedSyntax | packages.NeedTypes | packages.NeedTypesInfo | packages.NeedImports | packages.NeedDeps | packages.NeedCompiledGoFiles,
			Dir:  filepath.Join(repoRoot, d),
			Env:  goEnv(),
			Fset: prog.Fset,
		}
		pkgs, err := packages.Load(cfg, ".")
		if err != nil {
			return nil, fmt.Errorf("load %s: %v", d, err)
		}
		if len(pkgs) != 1 {
			return nil, fmt.Errorf("load %s: %d packages", d, len(pkgs))
		}
		p := pkgs[0]
		if len(p.Errors) > 0 {
			var msgs []string
			for _, e := range p.Errors {
				msgs = append(msgs, e.Error())
			}
			return nil, fmt.Errorf("load %s: %s", d, strings.Join(msgs, "; "))
		}
		prog.Pkgs[d] = p
		prog.indexFuncs(d, p)
		// index imported repo packages too (hermes when loading src/hermes2go)
		for _, imp := range p.Imports {
			if strings.HasSuffix(imp.PkgPath, "/hermes") {
				if _, ok := prog.Pkgs["hermes"]; !ok {
					prog.Pkgs["hermes"] = imp
					prog.indexFuncs("hermes", imp)
				}
			}
		}
	}
	return prog, nil
}

func (prog *Program) indexFuncs(dir string, p *packages.Package) {
	m := map[string]*FuncUnit{}
	prog.Funcs[dir] = m
	for i, f := range p.Syntax {
		fname := ""
		if i < len(p.CompiledGoFiles) {
			fname = p.CompiledGoFiles[i]
		}
		if strings.HasSuffix(fname, "_test.go") {
			continue
		}
		for _, d := range f.Decls {
			fd, ok := d.(*ast.FuncDecl)
			if !ok || fd.Body == nil {
				continue
			}
			name := fd.Name.Name
			obj, _ := p.TypesInfo.Defs[fd.Name].(*types.Func)
			var recv *types.Var
			if fd.Recv != nil && len(fd.Recv.List) > 0 {
				t := fd.Recv.List[0].Type
				if st, ok := t.(*ast.StarExpr); ok {
					t = st.X
				}
				if id, ok := t.(*ast.Ident); ok {
					name = id.Name + "." + name
				}
				if obj != nil {
					recv = obj.Type().(*types.Signature).Recv()
				}
			}
			u := &FuncUnit{Name: name, Pkg: p, Decl: fd, Type: fd.Type, Body: fd.Body, File: fname, Recv: recv}
			if obj != nil {
				u.Sig = obj.Type().(*types.Signature)
				prog.ByObj[obj] = u
			}
			m[name] = u
			// closures, numbered in source order like go/ssa does
			n := 0
			ast.Inspect(fd.Body, func(nd ast.Node) bool {
				if fl, ok := nd.(*ast.FuncLit); ok {
					n++
					cu := &FuncUnit{Name: fmt.Sprintf("%s$%d", name, n), Pkg: p, Decl: fd, Lit: fl, Type: fl.Type, Body: fl.Body, File: fname}
					if tv, ok := p.TypesInfo.Types[fl]; ok {
						cu.Sig, _ = tv.Type.(*types.Signature)
					}
					m[cu.Name] = cu
				}
				return true
			})
		}
	}
}

func (prog *Program) Lookup(pkgdir, name string) *FuncUnit {
	if m, ok := prog.Funcs[pkgdir]; ok {
		return m[name]
	}
	return nil
}

func (prog *Program) pos(p token.Pos) string {
	ps := prog.Fset.Position(p)
	rel, err := filepath.Rel(repoRoot, ps.Filename)
	if err != nil {
		rel = ps.Filename
	}
	return fmt.Sprintf("%s:%d", rel, ps.Line)
}

func (prog *Program) srcRange(n ast.Node) string {
	a := prog.Fset.Position(n.Pos())
	b := prog.Fset.Position(n.End())
	rel, err := filepath.Rel(repoRoot, a.Filename)
	if err != nil {
		rel = a.Filename
	}
	return fmt.Sprintf("%s:%d-%d", rel, a.Line, b.Line)
}

// loopsOf returns all for/range statements of a body in source order (the loop ordinals of contracts).
func loopsOf(body ast.Node) []ast.Stmt {
	var out []ast.Stmt
	ast.Inspect(body, func(n ast.Node) bool {
		switch s := n.(type) {
		case *ast.FuncLit:
			if n != body {
				return false // loops of nested closures are numbered in their own unit
			}
		case *ast.ForStmt:
			out = append(out, s)
		case *ast.RangeStmt:
			out = append(out, s)
		}
		return true
	})
	sort.SliceStable(out, func(i, j int) bool { return out[i].Pos() < out[j].Pos() })
	return out
}
