package main

// Contract files: Gobra-style //@ lines in comment-only Go files (build tag verif).

import (
	"bufio"
	"fmt"
	"go/ast"
	"go/parser"
	"os"
	"path/filepath"
	"regexp"
	"strconv"
	"strings"
)

type Clause struct {
	Kind    string   // requires, ensures, invariant, assert, assume
	Tags    []string // property ids; empty = every property the unit serves
	Name    string
	Text    string
	Expr    ast.Expr
	Line    int
	File    string
	Assumed bool // ensures clause that is assumed at call sites but not verified on the body (listed; backed by a bounded stand-in)
}

type Macro struct {
	Name   string
	Params []string
	Body   ast.Expr
	Text   string
}

type LoopContract struct {
	Anchor     string // alternative to Ordinal: normalised source-text prefix of the loop statement
	Ordinal    int
	Invariants []*Clause
	Decreases  ast.Expr
	DecText    string
	DecTags    []string
	Unroll     int // >0: unroll completely with an unwinding obligation
	Tags       []string
}

type GhostVar struct {
	Name string
	Sort string   // int, real, bool
	Init ast.Expr // optional initial value at unit entry
}

type AtCall struct {
	After   bool   // run after the call with res0, res1, ... bound to its results
	Callee  string // callee name as written in source, e.g. "dailyOutputConfig.WriteLine"
	Ordinal int    // 0 = every call
	Stmt    string // ghost statement text: "x++", "x = e"
	LHS     string
	RHS     ast.Expr
}

type AtStmt struct {
	Anchor string // normalised source-text prefix of the statement
	Before bool
	LHS    string
	RHS    ast.Expr
	Assert *Clause // intermediate assertion (proved here, assumed afterwards)
	Text   string
	Used   int
}

// UseRef: "uses REGION[: names]" (modular step over a sub-region of the same function: its named preconditions are
// asserted at its entry, its statements are replaced by havoc of what they may write plus its postconditions) and
// "establishes FUNC: names" (the named preconditions of an opaque callee are asserted at its calls).
type UseRef struct {
	Target string
	Names  []string // empty = every precondition
	Line   int
}

func (u *UseRef) wants(name string) bool {
	if len(u.Names) == 0 {
		return true
	}
	if len(u.Names) == 1 && u.Names[0] == "-" { // "uses R: -": none of its preconditions is established here
		return false
	}
	for _, n := range u.Names {
		if n == name {
			return true
		}
	}
	return false
}

type UnitContract struct {
	Uses        []*UseRef
	Establishes []*UseRef
	Relies      []*UseRef // "relies FUNC: names": the named postconditions of an opaque callee are assumed after its call
	AtStmts     []*AtStmt
	PkgDir      string
	Func        string
	Region      string // "" for whole function
	From, To    string // anchors (statement text prefixes)
	Within      string // optional: the anchors are looked for only inside the statement this anchor matches
	FromExcl    bool   // region starts AFTER the statement anchored by From (header keyword `after` / `between`)
	ToExcl      bool   // region ends BEFORE the statement anchored by To (header keyword `before` / `between … and`)
	Requires    []*Clause
	Ensures     []*Clause
	ExitEnsures []*Clause // must hold at every exit (return/break/continue) of a region, too
	RetEnsures  []*Clause // must hold at every return statement inside a region (result0, result1, ... = the returned values)
	Modifies    []string
	HasMod      bool
	Macros      map[string]*Macro
	Cases       []*Clause // case-split hints: every obligation may be proved separately under e and under !e
	Loops       map[int]*LoopContract
	ALoops      []*LoopContract     // loops bound by anchor text
	Safety      map[string][]string // kind -> tags  (div, index, uint, nofatal)
	Inline      bool
	Trusted     bool   // contract is assumed, body not verified (listed in assumptions)
	AbortsOnly  string // the callee aborts the process only in the stated situation, which is outside the reported error classes (assumption, listed)
	Ghosts      []GhostVar
	AtCalls     []*AtCall
	Tags        map[string]bool // all tags mentioned
	Line        int
	File        string
	Lemma       bool
	Vars        []GhostVar        // lemma variables
	UnrollLoops int               // >0: loops of the unit without a contract are unrolled up to this many iterations
	Opaque      []string          // callee names to treat as opaque (havoc) even if they have contracts
	Fresh       []string          // local variable names havoced at region entry are implicit; listed for docs
	FPChecks    []*FPCheck        // exhaustive concrete evaluation of rounding-critical statements (fpx.go)
	As          map[string]string // "serves C09 as C08": for property C09 this unit is verified with the clause selection of C08
}

func (u *UnitContract) ID() string {
	if u.Region != "" {
		return u.Func + "#" + u.Region
	}
	return u.Func
}

type ContractSet struct {
	Units  []*UnitContract
	ByID   map[string]*UnitContract // pkgdir + ":" + id
	Global map[string]*Macro
	Files  []string
}

func (cs *ContractSet) Get(pkgdir, id string) *UnitContract {
	return cs.ByID[pkgdir+":"+id]
}

var clauseHead = regexp.MustCompile(`^(requires|ensures-assumed|ensures|exit-ensures|return-ensures|invariant|assume|prove)(\[[A-Za-z0-9., ]*\])?\s+(?:([A-Za-z0-9_\-\.]+):\s)?(.*)$`)

func parseTags(s string) []string {
	s = strings.Trim(s, "[]")
	var out []string
	for _, t := range strings.Split(s, ",") {
		t = strings.TrimSpace(t)
		if t != "" {
			out = append(out, t)
		}
	}
	return out
}

// desugar turns  A ==> B  into implies(A, B) (right associative, at every paren level),
// and the backslash names into identifiers.
func desugar(s string) string {
	s = strings.ReplaceAll(s, `\result`, "__result")
	s = strings.ReplaceAll(s, `\i`, "__i")
	return desugarImp(s)
}

func splitTop(s, sep string) []string {
	var parts []string
	depth := 0
	last := 0
	inStr := false
	for i := 0; i < len(s); i++ {
		c := s[i]
		if inStr {
			if c == '\\' {
				i++
			} else if c == '"' {
				inStr = false
			}
			continue
		}
		switch c {
		case '"':
			inStr = true
		case '(', '[', '{':
			depth++
		case ')', ']', '}':
			depth--
		default:
			if depth == 0 && strings.HasPrefix(s[i:], sep) {
				parts = append(parts, s[last:i])
				last = i + len(sep)
				i += len(sep) - 1
			}
		}
	}
	parts = append(parts, s[last:])
	return parts
}

func desugarImp(s string) string {
	parts := splitTop(s, "==>")
	if len(parts) > 1 {
		return "implies(" + desugarImp(parts[0]) + ", " + desugarImp(strings.Join(parts[1:], "==>")) + ")"
	}
	// descend into parenthesised groups
	var out strings.Builder
	i := 0
	for i < len(s) {
		c := s[i]
		if c == '"' {
			j := i + 1
			for j < len(s) && s[j] != '"' {
				if s[j] == '\\' {
					j++
				}
				j++
			}
			out.WriteString(s[i:min(j+1, len(s))])
			i = j + 1
			continue
		}
		if c == '(' {
			// find the matching paren
			depth := 0
			j := i
			for ; j < len(s); j++ {
				if s[j] == '(' {
					depth++
				} else if s[j] == ')' {
					depth--
					if depth == 0 {
						break
					}
				}
			}
			if j >= len(s) {
				out.WriteString(s[i:])
				break
			}
			inner := s[i+1 : j]
			args := splitTop(inner, ",")
			for k := range args {
				args[k] = desugarImp(args[k])
			}
			out.WriteString("(" + strings.Join(args, ",") + ")")
			i = j + 1
			continue
		}
		out.WriteByte(c)
		i++
	}
	return out.String()
}

func parseSpecExpr(text string) (ast.Expr, error) {
	e, err := parser.ParseExpr(desugar(text))
	if err != nil {
		return nil, fmt.Errorf("cannot parse %q: %v", text, err)
	}
	return e, nil
}

var macroHead = regexp.MustCompile(`^define\s+([A-Za-z_][A-Za-z0-9_]*)\(([^)]*)\)\s*=\s*(.*)$`)
var regionHead = regexp.MustCompile(`^region\s+(\S+)\s+(from|between|after)\s+"((?:[^"\\]|\\.)*)"\s+(to|and|before)\s+"((?:[^"\\]|\\.)*)"(?:\s+within\s+"((?:[^"\\]|\\.)*)")?\s*$`)

func LoadContracts(dir string) (*ContractSet, error) {
	cs := &ContractSet{ByID: map[string]*UnitContract{}, Global: map[string]*Macro{}}
	var files []string
	filepath.Walk(dir, func(p string, info os.FileInfo, err error) error {
		if err == nil && !info.IsDir() && strings.HasSuffix(p, "verif_contracts.go") {
			files = append(files, p)
		}
		return nil
	})
	for _, f := range files {
		rel, _ := filepath.Rel(dir, filepath.Dir(f))
		if err := cs.parseFile(f, filepath.ToSlash(rel)); err != nil {
			return nil, err
		}
	}
	cs.Files = files
	return cs, nil
}

func (cs *ContractSet) parseFile(path, pkgdir string) error {
	fh, err := os.Open(path)
	if err != nil {
		return err
	}
	defer fh.Close()
	sc := bufio.NewScanner(fh)
	sc.Buffer(make([]byte, 1<<20), 1<<20)
	type rawLine struct {
		text string
		line int
	}
	var lines []rawLine
	ln := 0
	for sc.Scan() {
		ln++
		t := strings.TrimSpace(sc.Text())
		if !strings.HasPrefix(t, "//@") {
			continue
		}
		t = strings.TrimSpace(strings.TrimPrefix(t, "//@"))
		if t == "" || strings.HasPrefix(t, "#") {
			continue
		}
		// strip trailing  // comments that are not inside strings
		if i := strings.Index(t, " // "); i >= 0 && strings.Count(t[:i], `"`)%2 == 0 {
			t = strings.TrimSpace(t[:i])
		}
		if strings.HasPrefix(t, "|") && len(lines) > 0 {
			lines[len(lines)-1].text += " " + strings.TrimSpace(strings.TrimPrefix(t, "|"))
			continue
		}
		lines = append(lines, rawLine{t, ln})
	}
	var cur *UnitContract
	var curLoop *LoopContract
	fail := func(l rawLine, msg string, a ...interface{}) error {
		return fmt.Errorf("%s:%d: %s", path, l.line, fmt.Sprintf(msg, a...))
	}
	newUnit := func(l rawLine, fn, region string) *UnitContract {
		u := &UnitContract{PkgDir: pkgdir, Func: fn, Region: region, Macros: map[string]*Macro{}, Loops: map[int]*LoopContract{}, Safety: map[string][]string{}, Tags: map[string]bool{}, Line: l.line, File: path}
		cs.Units = append(cs.Units, u)
		cs.ByID[pkgdir+":"+u.ID()] = u
		return u
	}
	for _, l := range lines {
		t := l.text
		switch {
		case strings.HasPrefix(t, "func "):
			name := strings.TrimSpace(strings.TrimPrefix(t, "func "))
			if cs.ByID[pkgdir+":"+name] != nil {
				return fail(l, "duplicate contract for %s", name)
			}
			cur = newUnit(l, name, "")
			curLoop = nil
		case strings.HasPrefix(t, "lemma "):
			name := strings.TrimSpace(strings.TrimPrefix(t, "lemma "))
			cur = newUnit(l, name, "")
			cur.Lemma = true
			curLoop = nil
		case strings.HasPrefix(t, "region "):
			m := regionHead.FindStringSubmatch(t)
			if m == nil {
				return fail(l, "bad region header")
			}
			id := m[1]
			i := strings.Index(id, "#")
			if i < 0 {
				return fail(l, "region id must be Func#name")
			}
			from, _ := strconv.Unquote(`"` + m[3] + `"`)
			to, _ := strconv.Unquote(`"` + m[5] + `"`)
			cur = newUnit(l, id[:i], id[i+1:])
			cur.From, cur.To = from, to
			cur.Within, _ = strconv.Unquote(`"` + m[6] + `"`)
			cur.FromExcl = m[2] != "from"
			cur.ToExcl = m[4] != "to"
			curLoop = nil
		case strings.HasPrefix(t, "loop "):
			if cur == nil {
				return fail(l, "loop outside unit")
			}
			id := strings.Fields(t)[1]
			// a loop belongs to the most recent unit of the function it names (not necessarily the current unit)
			{
				fn := id
				if k := strings.IndexAny(fn, "@#"); k >= 0 {
					fn = fn[:k]
				}
				if cur.Func != fn {
					for ui := len(cs.Units) - 1; ui >= 0; ui-- {
						if cs.Units[ui].PkgDir == pkgdir && cs.Units[ui].Func == fn {
							cur = cs.Units[ui]
							break
						}
					}
				}
			}
			if k := strings.Index(t, "@\""); k >= 0 {
				a, err := strconv.Unquote(strings.TrimSpace(t[k+1:]))
				if err != nil {
					return fail(l, "loop anchor: %v", err)
				}
				curLoop = &LoopContract{Anchor: normWS(a)}
				cur.ALoops = append(cur.ALoops, curLoop)
				break
			}
			i := strings.LastIndex(id, "#")
			if i < 0 {
				return fail(l, "loop id must be Func#n")
			}
			n, err := strconv.Atoi(id[i+1:])
			if err != nil {
				return fail(l, "loop ordinal: %v", err)
			}
			curLoop = &LoopContract{Ordinal: n}
			// a loop belongs to the most recent unit of that function
			cur.Loops[n] = curLoop
		case strings.HasPrefix(t, "global define "):
			m := macroHead.FindStringSubmatch(strings.TrimPrefix(t, "global "))
			if m == nil {
				return fail(l, "bad define")
			}
			mac, err := mkMacro(m)
			if err != nil {
				return fail(l, "%v", err)
			}
			cs.Global[mac.Name] = mac
		case strings.HasPrefix(t, "define "):
			m := macroHead.FindStringSubmatch(t)
			if m == nil {
				return fail(l, "bad define")
			}
			mac, err := mkMacro(m)
			if err != nil {
				return fail(l, "%v", err)
			}
			if cur == nil {
				cs.Global[mac.Name] = mac
			} else {
				cur.Macros[mac.Name] = mac
			}
		case strings.HasPrefix(t, "modifies"):
			cur.HasMod = true
			rest := strings.TrimSpace(strings.TrimPrefix(t, "modifies"))
			if rest != "" && rest != "nothing" {
				for _, p := range splitTop(rest, ",") {
					cur.Modifies = append(cur.Modifies, strings.TrimSpace(p))
				}
			}
		case strings.HasPrefix(t, "safety"):
			rest := strings.TrimPrefix(t, "safety")
			var tags []string
			if strings.HasPrefix(rest, "[") {
				j := strings.Index(rest, "]")
				tags = parseTags(rest[:j+1])
				rest = rest[j+1:]
			}
			for _, k := range strings.Fields(rest) {
				cur.Safety[k] = tags
			}
			for _, tg := range tags {
				cur.Tags[tg] = true
			}
		case strings.HasPrefix(t, "cases "):
			txt := strings.TrimPrefix(t, "cases ")
			e, err := parseSpecExpr(txt)
			if err != nil {
				return fail(l, "%v", err)
			}
			cur.Cases = append(cur.Cases, &Clause{Kind: "cases", Name: fmt.Sprintf("c%d", len(cur.Cases)+1), Text: txt, Expr: e, Line: l.line, File: path})
		case strings.HasPrefix(t, "serves ") && strings.Contains(t, " as "):
			f := strings.Fields(t)
			if len(f) != 4 {
				return fail(l, "serves P as Q")
			}
			if cur.As == nil {
				cur.As = map[string]string{}
			}
			cur.As[f[1]] = f[3]
			cur.Tags[f[1]] = true
		case strings.HasPrefix(t, "serves "):
			for _, tg := range parseTags(strings.TrimPrefix(t, "serves ")) {
				cur.Tags[tg] = true
			}
		case strings.HasPrefix(t, "fp-exhaustive"):
			fc, err := parseFPCheck(strings.TrimSpace(strings.TrimPrefix(t, "fp-exhaustive")))
			if err != nil {
				return fail(l, "%v", err)
			}
			for _, tg := range fc.Tags {
				cur.Tags[tg] = true
			}
			cur.FPChecks = append(cur.FPChecks, fc)
		case strings.HasPrefix(t, "alias-of-field "):
			cur.Macros["__alias_"+strings.TrimSpace(strings.TrimPrefix(t, "alias-of-field "))] = &Macro{}
		case t == "inline":
			cur.Inline = true
		case t == "trusted":
			cur.Trusted = true
		case strings.HasPrefix(t, "aborts-only "):
			cur.AbortsOnly = strings.TrimSpace(strings.TrimPrefix(t, "aborts-only "))
		case strings.HasPrefix(t, "uses "), strings.HasPrefix(t, "establishes "), strings.HasPrefix(t, "relies "):
			isUse := strings.HasPrefix(t, "uses ")
			isRely := strings.HasPrefix(t, "relies ")
			rest := strings.TrimSpace(strings.TrimPrefix(strings.TrimPrefix(strings.TrimPrefix(t, "uses "), "establishes "), "relies "))
			ur := &UseRef{Line: l.line}
			if k := strings.Index(rest, ":"); k >= 0 {
				ur.Names = strings.Fields(rest[k+1:])
				rest = strings.TrimSpace(rest[:k])
			}
			ur.Target = rest
			if ur.Target == "" {
				return fail(l, "uses REGION[: names] / establishes FUNC[: names]")
			}
			if isRely {
				if len(ur.Names) == 0 {
					return fail(l, "relies FUNC: names")
				}
				cur.Relies = append(cur.Relies, ur)
			} else if isUse {
				cur.Uses = append(cur.Uses, ur)
			} else {
				cur.Establishes = append(cur.Establishes, ur)
			}
		case strings.HasPrefix(t, "opaque "):
			cur.Opaque = append(cur.Opaque, strings.Fields(strings.TrimPrefix(t, "opaque "))...)
		case strings.HasPrefix(t, "ghost var "):
			decl := strings.TrimPrefix(t, "ghost var ")
			var init ast.Expr
			if k := strings.Index(decl, "="); k >= 0 {
				e, err := parseSpecExpr(decl[k+1:])
				if err != nil {
					return fail(l, "%v", err)
				}
				init = e
				decl = decl[:k]
			}
			f := strings.Fields(decl)
			if len(f) != 2 {
				return fail(l, "ghost var NAME SORT [= INIT]")
			}
			cur.Ghosts = append(cur.Ghosts, GhostVar{f[0], f[1], init})
		case strings.HasPrefix(t, "var "):
			f := strings.Fields(strings.TrimPrefix(t, "var "))
			if len(f) != 2 {
				return fail(l, "var NAME SORT")
			}
			cur.Vars = append(cur.Vars, GhostVar{f[0], f[1], nil})
		case strings.HasPrefix(t, "after stmt "), strings.HasPrefix(t, "before stmt "):
			// after|before stmt "ANCHOR": ghost LHS = EXPR      or      ...: assert[TAGS] NAME: EXPR
			before := strings.HasPrefix(t, "before stmt ")
			rest := strings.TrimSpace(strings.TrimPrefix(strings.TrimPrefix(t, "after stmt "), "before stmt "))
			if !strings.HasPrefix(rest, "\"") {
				return fail(l, "after stmt \"anchor\": ghost x = e")
			}
			j := 1
			for j < len(rest) && rest[j] != '"' {
				if rest[j] == '\\' {
					j++
				}
				j++
			}
			if j >= len(rest) {
				return fail(l, "unterminated anchor")
			}
			anchor, _ := strconv.Unquote(rest[:j+1])
			stmt := strings.TrimSpace(rest[j+1:])
			stmt = strings.TrimSpace(strings.TrimPrefix(stmt, ":"))
			if strings.HasPrefix(stmt, "assume") {
				m := clauseHead.FindStringSubmatch("prove" + strings.TrimPrefix(stmt, "assume"))
				if m == nil {
					return fail(l, "assume name: expr")
				}
				e, err := parseSpecExpr(m[4])
				if err != nil {
					return fail(l, "%v", err)
				}
				c := &Clause{Kind: "assume", Tags: parseTags(m[2]), Name: m[3], Text: m[4], Expr: e, Line: l.line, File: path}
				cur.AtStmts = append(cur.AtStmts, &AtStmt{Anchor: normWS(anchor), Before: before, Assert: c, Text: stmt})
				break
			}
			if strings.HasPrefix(stmt, "assert") {
				m := clauseHead.FindStringSubmatch("prove" + strings.TrimPrefix(stmt, "assert"))
				if m == nil {
					return fail(l, "assert[tags] name: expr")
				}
				e, err := parseSpecExpr(m[4])
				if err != nil {
					return fail(l, "%v", err)
				}
				c := &Clause{Kind: "assert", Tags: parseTags(m[2]), Name: m[3], Text: m[4], Expr: e, Line: l.line, File: path}
				if c.Name == "" {
					c.Name = fmt.Sprintf("a%d", len(cur.AtStmts)+1)
				}
				for _, tg := range c.Tags {
					cur.Tags[tg] = true
				}
				cur.AtStmts = append(cur.AtStmts, &AtStmt{Anchor: normWS(anchor), Before: before, Assert: c, Text: stmt})
				break
			}
			stmt = strings.TrimSpace(strings.TrimPrefix(stmt, "ghost"))
			eq := strings.Index(stmt, "=")
			if eq < 0 {
				return fail(l, "ghost statement must be x = e")
			}
			rhs, err := parseSpecExpr(stmt[eq+1:])
			if err != nil {
				return fail(l, "%v", err)
			}
			cur.AtStmts = append(cur.AtStmts, &AtStmt{Anchor: normWS(anchor), Before: before, LHS: strings.TrimSpace(stmt[:eq]), RHS: rhs, Text: stmt})
		case strings.HasPrefix(t, "at call "), strings.HasPrefix(t, "after call "):
			// at call NAME[#n]: ghost LHS = EXPR
			isAfter := strings.HasPrefix(t, "after call ")
			rest := strings.TrimPrefix(strings.TrimPrefix(t, "at call "), "after call ")
			i := strings.Index(rest, ":")
			if i < 0 {
				return fail(l, "at call NAME: ghost x = e")
			}
			callee := strings.TrimSpace(rest[:i])
			stmt := strings.TrimSpace(rest[i+1:])
			stmt = strings.TrimSpace(strings.TrimPrefix(stmt, "ghost"))
			ord := 0
			if j := strings.Index(callee, "#"); j >= 0 {
				ord, _ = strconv.Atoi(callee[j+1:])
				callee = callee[:j]
			}
			eq := strings.Index(stmt, "=")
			if eq < 0 {
				return fail(l, "ghost statement must be x = e")
			}
			rhs, err := parseSpecExpr(stmt[eq+1:])
			if err != nil {
				return fail(l, "%v", err)
			}
			cur.AtCalls = append(cur.AtCalls, &AtCall{After: isAfter, Callee: callee, Ordinal: ord, Stmt: stmt, LHS: strings.TrimSpace(stmt[:eq]), RHS: rhs})
		case strings.HasPrefix(t, "decreases ") || strings.HasPrefix(t, "decreases["):
			if curLoop == nil {
				return fail(l, "decreases outside loop")
			}
			txt := strings.TrimSpace(strings.TrimPrefix(t, "decreases"))
			if strings.HasPrefix(txt, "[") {
				j := strings.Index(txt, "]")
				curLoop.DecTags = parseTags(txt[:j+1])
				for _, tg := range curLoop.DecTags {
					cur.Tags[tg] = true
				}
				txt = strings.TrimSpace(txt[j+1:])
			}
			e, err := parseSpecExpr(txt)
			if err != nil {
				return fail(l, "%v", err)
			}
			curLoop.Decreases = e
			curLoop.DecText = txt
		case strings.HasPrefix(t, "unroll-loops "):
			// unit level: every loop of the unit WITHOUT a contract of its own is unrolled completely up to N iterations
			// (with its unwinding obligation) - the contract then does not depend on how the loops are written
			if cur == nil {
				return fail(l, "unroll-loops outside unit")
			}
			n, err := strconv.Atoi(strings.TrimSpace(strings.TrimPrefix(t, "unroll-loops ")))
			if err != nil || n <= 0 {
				return fail(l, "unroll-loops N")
			}
			cur.UnrollLoops = n
		case strings.HasPrefix(t, "unroll"):
			if curLoop == nil {
				return fail(l, "unroll outside loop")
			}
			rest := strings.TrimPrefix(t, "unroll")
			if strings.HasPrefix(rest, "[") {
				j := strings.Index(rest, "]")
				curLoop.Tags = parseTags(rest[:j+1])
				rest = rest[j+1:]
			}
			n, err := strconv.Atoi(strings.TrimSpace(rest))
			if err != nil {
				return fail(l, "unroll N")
			}
			curLoop.Unroll = n
		default:
			m := clauseHead.FindStringSubmatch(t)
			if m == nil {
				return fail(l, "unrecognised contract line: %s", t)
			}
			if cur == nil {
				return fail(l, "clause outside unit")
			}
			e, err := parseSpecExpr(m[4])
			if err != nil {
				return fail(l, "%v", err)
			}
			c := &Clause{Kind: m[1], Tags: parseTags(m[2]), Name: m[3], Text: m[4], Expr: e, Line: l.line, File: path}
			for _, tg := range c.Tags {
				cur.Tags[tg] = true
			}
			switch c.Kind {
			case "requires", "assume":
				if curLoop != nil && c.Kind == "requires" {
					return fail(l, "requires inside loop block; start a new func/region")
				}
				c.Kind = "requires"
				if c.Name == "" {
					c.Name = fmt.Sprintf("r%d", len(cur.Requires)+1)
				}
				cur.Requires = append(cur.Requires, c)
			case "ensures-assumed":
				c.Kind = "ensures"
				c.Assumed = true
				if c.Name == "" {
					c.Name = fmt.Sprintf("e%d", len(cur.Ensures)+1)
				}
				cur.Ensures = append(cur.Ensures, c)
			case "ensures", "prove":
				c.Kind = "ensures"
				if c.Name == "" {
					c.Name = fmt.Sprintf("e%d", len(cur.Ensures)+1)
				}
				cur.Ensures = append(cur.Ensures, c)
			case "exit-ensures":
				if c.Name == "" {
					c.Name = fmt.Sprintf("x%d", len(cur.ExitEnsures)+1)
				}
				cur.ExitEnsures = append(cur.ExitEnsures, c)
			case "return-ensures":
				if c.Name == "" {
					c.Name = fmt.Sprintf("ret%d", len(cur.RetEnsures)+1)
				}
				cur.RetEnsures = append(cur.RetEnsures, c)
			case "invariant":
				if curLoop == nil {
					return fail(l, "invariant outside loop")
				}
				if c.Name == "" {
					c.Name = fmt.Sprintf("i%d", len(curLoop.Invariants)+1)
				}
				curLoop.Invariants = append(curLoop.Invariants, c)
			}
		}
	}
	return nil
}

func mkMacro(m []string) (*Macro, error) {
	e, err := parseSpecExpr(m[3])
	if err != nil {
		return nil, err
	}
	var ps []string
	for _, p := range strings.Split(m[2], ",") {
		p = strings.TrimSpace(p)
		if p != "" {
			ps = append(ps, p)
		}
	}
	return &Macro{Name: m[1], Params: ps, Body: e, Text: m[3]}, nil
}

func hasTag(tags []string, p string) bool {
	if len(tags) == 0 {
		return true
	}
	for _, t := range tags {
		if t == p {
			return true
		}
	}
	return false
}
