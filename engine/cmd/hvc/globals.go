package main

// Package-level state: which package-level VARIABLES of the repository a function may mutate, transitively over the
// static call graph (syntactic; closures are part of the body that contains them). A variable counts as mutated when it
// (or an element / field of it) is assigned, incremented, used as the target of copy/delete/clear, has its address
// taken, or is the receiver of a method with pointer receiver (sync.Map.Store, sync.Mutex.Lock, ...). Reading a
// package-level table is not a mutation. Used by `safety noglobals`: a run must not leave anything behind in
// package-level state that a later run of the same session (or process) could read.

import (
	"go/ast"
	"go/token"
	"go/types"
	"sort"
)

var globalTouchCache = map[*FuncUnit]map[string]string{}
var globalTouchBusy = map[*FuncUnit]bool{}

func rootVar(e ast.Expr, info *types.Info) *types.Var {
	for {
		switch x := e.(type) {
		case *ast.Ident:
			if v, ok := info.Uses[x].(*types.Var); ok {
				return v
			}
			if v, ok := info.Defs[x].(*types.Var); ok {
				return v
			}
			return nil
		case *ast.SelectorExpr:
			if _, isPkg := info.Uses[identOf(x.X)].(*types.PkgName); isPkg {
				if v, ok := info.Uses[x.Sel].(*types.Var); ok {
					return v
				}
				return nil
			}
			e = x.X
		case *ast.IndexExpr:
			e = x.X
		case *ast.StarExpr:
			e = x.X
		case *ast.ParenExpr:
			e = x.X
		case *ast.SliceExpr:
			e = x.X
		default:
			return nil
		}
	}
}

func identOf(e ast.Expr) *ast.Ident {
	id, _ := e.(*ast.Ident)
	return id
}

func isPkgLevel(v *types.Var) bool {
	return v != nil && v.Pkg() != nil && v.Parent() == v.Pkg().Scope()
}

// GlobalTouch: package-level variable (qualified by package name) -> where and how it is mutated.
func (prog *Program) GlobalTouch(fu *FuncUnit) map[string]string {
	if s, ok := globalTouchCache[fu]; ok {
		return s
	}
	res := map[string]string{}
	if globalTouchBusy[fu] {
		return res
	}
	globalTouchBusy[fu] = true
	defer delete(globalTouchBusy, fu)
	info := fu.Pkg.TypesInfo
	repoPkg := func(p *types.Package) bool {
		if p == nil {
			return false
		}
		for _, pk := range prog.Pkgs {
			if pk.Types == p {
				return true
			}
		}
		return false
	}
	note := func(e ast.Expr, how string, pos token.Pos) {
		v := rootVar(e, info)
		if !isPkgLevel(v) || !repoPkg(v.Pkg()) {
			return
		}
		k := v.Pkg().Name() + "." + v.Name()
		if _, seen := res[k]; !seen {
			res[k] = how + " at " + prog.pos(pos)
		}
	}
	ast.Inspect(fu.Body, func(n ast.Node) bool {
		switch s := n.(type) {
		case *ast.AssignStmt:
			if s.Tok != token.DEFINE {
				for _, l := range s.Lhs {
					note(l, "assigned", s.Pos())
				}
			}
		case *ast.IncDecStmt:
			note(s.X, "assigned", s.Pos())
		case *ast.UnaryExpr:
			if s.Op == token.AND {
				note(s.X, "address taken", s.Pos())
			}
		case *ast.RangeStmt:
			if s.Tok == token.ASSIGN {
				if s.Key != nil {
					note(s.Key, "assigned", s.Pos())
				}
				if s.Value != nil {
					note(s.Value, "assigned", s.Pos())
				}
			}
		case *ast.CallExpr:
			switch f := s.Fun.(type) {
			case *ast.Ident:
				if b, ok := info.Uses[f].(*types.Builtin); ok && len(s.Args) > 0 {
					switch b.Name() {
					case "copy", "delete", "clear":
						note(s.Args[0], b.Name()+" target", s.Pos())
					}
				}
				if fn, ok := info.Uses[f].(*types.Func); ok {
					if cu := prog.ByObj[fn]; cu != nil {
						for k, v := range prog.GlobalTouch(cu) {
							if _, seen := res[k]; !seen {
								res[k] = v + " (via " + cu.Name + ")"
							}
						}
					}
				}
			case *ast.SelectorExpr:
				if sel, ok := info.Selections[f]; ok && sel.Kind() == types.MethodVal {
					if fn, ok := sel.Obj().(*types.Func); ok {
						if sig, ok := fn.Type().(*types.Signature); ok && sig.Recv() != nil {
							if _, ptrRecv := sig.Recv().Type().(*types.Pointer); ptrRecv {
								note(f.X, "receiver of pointer-receiver method "+fn.Name(), s.Pos())
							}
						}
						if cu := prog.ByObj[fn]; cu != nil {
							for k, v := range prog.GlobalTouch(cu) {
								if _, seen := res[k]; !seen {
									res[k] = v + " (via " + cu.Name + ")"
								}
							}
						}
					}
				} else if fn, ok := info.Uses[f.Sel].(*types.Func); ok {
					if cu := prog.ByObj[fn]; cu != nil {
						for k, v := range prog.GlobalTouch(cu) {
							if _, seen := res[k]; !seen {
								res[k] = v + " (via " + cu.Name + ")"
							}
						}
					}
				}
			}
		}
		return true
	})
	globalTouchCache[fu] = res
	return res
}

func sortedKeys(m map[string]string) []string {
	var ks []string
	for k := range m {
		ks = append(ks, k)
	}
	sort.Strings(ks)
	return ks
}
