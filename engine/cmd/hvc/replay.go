package main

import (
	"encoding/json"
	"fmt"
	"os"
)

type Replay struct {
	Property   string            `json:"property"`
	Obligation string            `json:"obligation"`
	Kind       string            `json:"kind"`
	Clause     string            `json:"clause"`
	At         string            `json:"at"`
	Unit       string            `json:"unit"`
	Status     string            `json:"solver_status"`
	Solver     string            `json:"solver"`
	Output     string            `json:"solver_output"`
	Model      map[string]string `json:"model,omitempty"`
	Replayed   bool              `json:"replayed"`
	ReplayLog  string            `json:"replay_log,omitempty"`
	Note       string            `json:"note"`
	PerSolver  map[string]string `json:"per_solver,omitempty"`
	TestSource string            `json:"replay_test_source,omitempty"`
	PkgDir     string            `json:"replay_pkg_dir,omitempty"`
	extra      []*Term           // additional hypotheses for the model query (encoder cross-check: block earlier models)
	scalars    map[*Term]string  // scalar entry terms -> model value (for blocking)
	scalarKind map[*Term]SortKind
	candidate  bool // the entry state comes from a reduced query (obligation undecided), confirmed or not by execution
}

func buildReplay(prog *Program, cs *ContractSet, prop string, r ObResult, timeout int) *Replay {
	rep := &Replay{Property: prop, Obligation: r.Ob.Name, Kind: r.Ob.Kind, Clause: r.Ob.Text, At: r.Ob.Pos, Unit: r.Ob.Unit,
		Status: r.Res.Status, Solver: r.Res.Solver, Output: clip(r.Res.Raw, 4000), PerSolver: r.Res.All}
	rep.Note = "obligation generated from /repo's current source was not discharged"
	tryReplay(prog, cs, prop, r, rep, timeout)
	return rep
}

func cmdReplay(args []string) int {
	if len(args) < 1 {
		usage()
	}
	data, err := os.ReadFile(args[0])
	if err != nil {
		fmt.Fprintln(os.Stderr, err)
		return 2
	}
	var rep Replay
	if err := json.Unmarshal(data, &rep); err != nil {
		fmt.Fprintln(os.Stderr, err)
		return 2
	}
	return replayRecorded(&rep, args[0])
}
