package main

// Syntactic, interprocedural write-set summaries for repository functions that have no contract.

import (
	"fmt"
	"go/ast"
	"go/token"
	"go/types"
	"sort"
	"strings"
)

type ModSum struct {
	Params  map[int]map[string]bool // parameter index (-1 = receiver) -> field paths written below the pointee ("" = all)
	Globals map[string]bool
	Fatal   bool // may call log.Fatal / panic / os.Exit
}

var modSumCache = map[*FuncUnit]*ModSum{}
var modSumBusy = map[*FuncUnit]bool{}

func (prog *Program) paramIndex(fu *FuncUnit, obj types.Object) (int, bool) {
	info := fu.Pkg.TypesInfo
	if fu.Lit == nil && fu.Decl.Recv != nil && len(fu.Decl.Recv.List) > 0 && len(fu.Decl.Recv.List[0].Names) > 0 {
		if info.Defs[fu.Decl.Recv.List[0].Names[0]] == obj {
			return -1, true
		}
	}
	i := 0
	for _, f := range fu.Type.Params.List {
		if len(f.Names) == 0 {
			i++
			continue
		}
		for _, n := range f.Names {
			if info.Defs[n] == obj {
				return i, true
			}
			i++
		}
	}
	return 0, false
}

// accessPath: base identifier object and the field path up to the first index.
func accessPath(e ast.Expr, info *types.Info) (types.Object, string, bool) {
	var fields []string
	cut := false
	for {
		switch v := e.(type) {
		case *ast.ParenExpr:
			e = v.X
		case *ast.StarExpr:
			e = v.X
		case *ast.IndexExpr:
			fields = nil
			cut = true
			e = v.X
		case *ast.SliceExpr:
			fields = nil
			e = v.X
		case *ast.SelectorExpr:
			if id, ok := v.X.(*ast.Ident); ok {
				if _, isPkg := info.Uses[id].(*types.PkgName); isPkg {
					return info.Uses[v.Sel], "", true
				}
			}
			fields = append([]string{v.Sel.Name}, fields...)
			e = v.X
		case *ast.UnaryExpr:
			if v.Op == token.AND {
				e = v.X
				continue
			}
			return nil, "", false
		case *ast.Ident:
			obj := info.Uses[v]
			if obj == nil {
				obj = info.Defs[v]
			}
			_ = cut
			return obj, strings.Join(fields, "."), obj != nil
		default:
			return nil, "", false
		}
	}
}

func (prog *Program) ModSummary(fu *FuncUnit) *ModSum {
	if s, ok := modSumCache[fu]; ok {
		return s
	}
	ms := &ModSum{Params: map[int]map[string]bool{}, Globals: map[string]bool{}}
	if modSumBusy[fu] {
		return ms // recursion: the fixpoint is approximated by the outer computation
	}
	modSumBusy[fu] = true
	defer func() { delete(modSumBusy, fu) }()
	info := fu.Pkg.TypesInfo
	add := func(i int, path string) {
		if ms.Params[i] == nil {
			ms.Params[i] = map[string]bool{}
		}
		ms.Params[i][path] = true
	}
	allPtrParams := func() {
		n := 0
		if fu.Sig != nil {
			n = fu.Sig.Params().Len()
		}
		for i := -1; i < n; i++ {
			add(i, "")
		}
	}
	// local pointer aliases:  p := &g.X  /  p := g
	alias := map[types.Object]struct {
		idx  int
		path string
	}{}
	record := func(e ast.Expr) {
		obj, path, ok := accessPath(e, info)
		if !ok {
			return
		}
		v, isVar := obj.(*types.Var)
		if !isVar {
			return
		}
		if v.Pkg() != nil && v.Parent() == v.Pkg().Scope() {
			ms.Globals[v.Name()] = true
			return
		}
		if i, isParam := prog.paramIndex(fu, obj); isParam {
			if _, isPtr := v.Type().Underlying().(*types.Pointer); isPtr {
				add(i, path)
			} else if _, isSl := v.Type().Underlying().(*types.Slice); isSl {
				add(i, "")
			} else if _, isMap := v.Type().Underlying().(*types.Map); isMap {
				add(i, "")
			}
			return
		}
		if a, ok := alias[obj]; ok {
			p := a.path
			if path != "" {
				if p != "" {
					p += "."
				}
				p += path
			}
			add(a.idx, p)
			return
		}
		if _, isPtr := v.Type().Underlying().(*types.Pointer); isPtr && path != "" {
			// write through a local pointer of unknown origin
			allPtrParams()
		}
	}
	argTarget := func(e ast.Expr) (int, string, bool) {
		obj, path, ok := accessPath(e, info)
		if !ok {
			return 0, "", false
		}
		if i, isParam := prog.paramIndex(fu, obj); isParam {
			return i, path, true
		}
		if a, ok := alias[obj]; ok {
			p := a.path
			if path != "" {
				if p != "" {
					p += "."
				}
				p += path
			}
			return a.idx, p, true
		}
		return 0, "", false
	}
	join := func(a, b string) string {
		if a == "" {
			return b
		}
		if b == "" {
			return a
		}
		return a + "." + b
	}
	ast.Inspect(fu.Body, func(n ast.Node) bool {
		switch s := n.(type) {
		case *ast.AssignStmt:
			for i, l := range s.Lhs {
				if s.Tok == token.DEFINE {
					if id, ok := l.(*ast.Ident); ok && i < len(s.Rhs) {
						if obj := info.Defs[id]; obj != nil {
							if _, isPtr := obj.Type().Underlying().(*types.Pointer); isPtr {
								if ai, ap, ok := argTarget(s.Rhs[i]); ok {
									alias[obj] = struct {
										idx  int
										path string
									}{ai, ap}
								}
							}
						}
						continue
					}
				}
				record(l)
			}
		case *ast.IncDecStmt:
			record(s.X)
		case *ast.RangeStmt:
			if s.Tok == token.ASSIGN {
				if s.Key != nil {
					record(s.Key)
				}
				if s.Value != nil {
					record(s.Value)
				}
			}
		case *ast.CallExpr:
			// callee summary
			var callee *FuncUnit
			var recvExpr ast.Expr
			switch f := s.Fun.(type) {
			case *ast.Ident:
				if fn, ok := info.Uses[f].(*types.Func); ok {
					callee = prog.ByObj[fn]
				} else if b, ok := info.Uses[f].(*types.Builtin); ok {
					if b.Name() == "copy" || b.Name() == "delete" || b.Name() == "clear" {
						record(s.Args[0])
					}
					return true
				}
			case *ast.SelectorExpr:
				if sel, ok := info.Selections[f]; ok && sel.Kind() == types.MethodVal {
					if fn, ok := sel.Obj().(*types.Func); ok {
						callee = prog.ByObj[fn]
						recvExpr = f.X
					}
				} else if fn, ok := info.Uses[f.Sel].(*types.Func); ok {
					callee = prog.ByObj[fn]
					if fn.Pkg() != nil {
						switch fn.Pkg().Path() + "." + fn.Name() {
						case "log.Fatal", "log.Fatalf", "log.Fatalln", "os.Exit", "log.Panic", "log.Panicf":
							ms.Fatal = true
						}
					}
				}
			}
			if tv, ok := info.Types[s.Fun]; ok && tv.IsType() {
				return true
			}
			if callee != nil {
				cs := prog.ModSummary(callee)
				if cs.Fatal {
					ms.Fatal = true
				}
				for g := range cs.Globals {
					ms.Globals[g] = true
				}
				for ci, paths := range cs.Params {
					var ae ast.Expr
					if ci == -1 {
						ae = recvExpr
					} else if ci < len(s.Args) {
						ae = s.Args[ci]
					}
					if ae == nil {
						continue
					}
					if ti, tp, ok := argTarget(ae); ok {
						for p := range paths {
							add(ti, join(tp, p))
						}
					}
				}
				return true
			}
			// unknown callee (external, interface, closure value): pointer arguments derived from parameters are written
			if recvExpr == nil {
				if f, ok := s.Fun.(*ast.SelectorExpr); ok {
					if sel, ok := info.Selections[f]; ok && sel.Kind() == types.MethodVal {
						recvExpr = f.X
					}
				}
			}
			exprs := append([]ast.Expr{}, s.Args...)
			if recvExpr != nil {
				exprs = append(exprs, recvExpr)
			}
			for _, a := range exprs {
				t := info.TypeOf(a)
				if t == nil {
					continue
				}
				switch t.Underlying().(type) {
				case *types.Pointer, *types.Slice, *types.Map:
					if ti, tp, ok := argTarget(a); ok {
						// reading methods of well-known external types do not write through their receiver;
						// being conservative here only costs precision.
						add(ti, tp)
					}
				}
			}
		}
		return true
	})
	modSumCache[fu] = ms
	return ms
}

func (x *Exec) applyModSummary(fu *FuncUnit, recv *Value, args []Value, st *State) {
	ms := x.prog.ModSummary(fu)
	idxs := make([]int, 0, len(ms.Params))
	for i := range ms.Params {
		idxs = append(idxs, i)
	}
	sort.Ints(idxs)
	for _, i := range idxs {
		var v *Value
		if i == -1 {
			v = recv
		} else if i < len(args) {
			v = &args[i]
		}
		if v == nil || v.Ptr == nil {
			if v != nil && v.Term != nil && v.T != nil {
				// slices/maps passed by value share their backing store: not tracked, abstracted
				x.abstract("slice/map argument possibly written by " + fu.Name)
			}
			continue
		}
		if v.Ptr.Opaque {
			continue
		}
		paths := make([]string, 0, len(ms.Params[i]))
		for p := range ms.Params[i] {
			paths = append(paths, p)
		}
		sort.Strings(paths)
		for _, p := range paths {
			if p == "" {
				if len(v.Ptr.Idx) > 0 {
					x.havocKey(st, v.Ptr.Key)
				} else {
					x.havocPrefix(st, v.Ptr.Key)
					x.havocRoot(st, v.Ptr.Key)
				}
				continue
			}
			x.havocPrefix(st, v.Ptr.Key+"."+p)
		}
	}
	for g := range ms.Globals {
		x.havocPrefix(st, fu.Pkg.Types.Name()+"::"+g)
	}
	if ms.Fatal {
		if _, on := x.safetyOn("nofatal"); !on {
			x.abstract(fu.Name + " may abort the process (log.Fatal); the aborting paths are not followed")
		}
	}
}

// calleeAbort: under "safety nofatal" a callee that may abort the process (it or its callees reach log.Fatal/os.Exit/
// log.Panic) is an obligation that cannot be discharged, unless its contract states when it aborts (aborts-only: an
// assumption, listed) or its own body is verified under safety nofatal. Reported, never assumed away.
func (x *Exec) calleeAbort(fu *FuncUnit, uc *UnitContract, st *State) {
	tags, on := x.safetyOn("nofatal")
	if !on || x.specDepth > 0 || x.dry > 0 {
		return
	}
	if !x.prog.ModSummary(fu).Fatal {
		return
	}
	if uc != nil {
		if uc.AbortsOnly != "" {
			x.trustedUsed[fu.Name+" aborts the process only when: "+uc.AbortsOnly+" : assumed at "+x.uc.ID()] = true
			return
		}
		if _, ok := uc.Safety["nofatal"]; ok && !uc.Trusted {
			return
		}
	}
	x.callCount["abort:"+fu.Name]++
	x.assert(st, False, "no-abort-call", fmt.Sprintf("%s/no-abort:call-%s@%d", x.uc.ID(), fu.Name, x.callCount["abort:"+fu.Name]), tags, token.NoPos,
		"callee "+fu.Name+" may abort the process (log.Fatal/os.Exit reachable in its body or its callees) and has no contract excluding it")
}
