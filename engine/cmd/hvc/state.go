package main

import (
	"fmt"
	"go/ast"
	"go/types"
	"sort"
	"strings"
)

// Loc is a static access path: a store key plus index terms.
type Loc struct {
	Key    string
	KeyT   types.Type // type of the whole key's content (T wrapped in len(Idx) arrays/slices)
	Idx    []*Term
	T      types.Type // type of the location's content
	Opaque bool       // not resolvable: reads are fresh, writes are dropped (recorded as abstracted)
}

type Closure struct {
	Lit  *ast.FuncLit
	Unit *FuncUnit
}

type Value struct {
	T      types.Type
	Term   *Term
	Len    *Term
	Dom    *Term
	Dom2   *Term // maps whose elements are maps: domain of the inner maps, (Array K1 (Array K2 Bool))
	Fields map[string]Value
	Ptr    *Loc
	Fn     *Closure
	FnObj  *types.Func
	Tuple  []Value
	IsNil  bool
}

func scalar(t *Term, ty types.Type) Value { return Value{T: ty, Term: t} }

type State struct {
	pc    *Term
	store map[string]*Term
	ptrs  map[string]*Loc
	fns   map[string]*Closure
	gen   map[string]int // havoc generation per root
}

func newState() *State {
	return &State{pc: True, store: map[string]*Term{}, ptrs: map[string]*Loc{}, fns: map[string]*Closure{}, gen: map[string]int{}}
}

func (s *State) clone() *State {
	n := &State{pc: s.pc, store: make(map[string]*Term, len(s.store)), ptrs: make(map[string]*Loc, len(s.ptrs)), fns: make(map[string]*Closure, len(s.fns)), gen: make(map[string]int, len(s.gen))}
	for k, v := range s.store {
		n.store[k] = v
	}
	for k, v := range s.ptrs {
		n.ptrs[k] = v
	}
	for k, v := range s.fns {
		n.fns[k] = v
	}
	for k, v := range s.gen {
		n.gen[k] = v
	}
	return n
}

func rootOf(key string) string {
	if i := strings.IndexAny(key, ".#"); i >= 0 {
		return key[:i]
	}
	return key
}

// ---- sorts of Go types ----

func sortOf(t types.Type) *Sort {
	if t == nil {
		return US
	}
	switch u := t.Underlying().(type) {
	case *types.Basic:
		info := u.Info()
		switch {
		case info&types.IsInteger != 0:
			return IntS
		case info&types.IsFloat != 0:
			return RealS
		case info&types.IsBoolean != 0:
			return BoolS
		case info&types.IsString != 0:
			return StrS
		}
		return US
	case *types.Array:
		return ArrS(IntS, sortOf(u.Elem()))
	case *types.Slice:
		return ArrS(IntS, sortOf(u.Elem()))
	case *types.Map:
		return ArrS(sortOf(u.Key()), sortOf(u.Elem()))
	}
	return US
}

func isUnsigned(t types.Type) bool {
	if t == nil {
		return false
	}
	if b, ok := t.Underlying().(*types.Basic); ok {
		return b.Info()&types.IsUnsigned != 0
	}
	return false
}

func zeroTerm(s *Sort) *Term {
	switch s.K {
	case SInt:
		return IntLit(0)
	case SReal:
		return RealLitF(0)
	case SBool:
		return False
	case SStr:
		return StrLit("")
	case SArr:
		return ConstArr(s, zeroTerm(s.Elem))
	}
	return Sym("nil", US)
}

var nilU = Sym("nil", US)

// ---- key/value access on a state, with lazily created initial symbols ----

func (x *Exec) initSym(key string, s *Sort, st *State) *Term {
	g := st.gen[rootOf(key)]
	name := key + "#0"
	if g > 0 {
		name = fmt.Sprintf("%s#h%d", key, g)
	}
	if t, ok := x.initSyms[name]; ok {
		if !t.S.Eq(s) {
			// same key used at two sorts (should not happen); disambiguate
			name = name + ":" + s.String()
			if t2, ok := x.initSyms[name]; ok {
				return t2
			}
		} else {
			return t
		}
	}
	t := Sym(name, s)
	x.initSyms[name] = t
	return t
}

func (x *Exec) get(st *State, key string, s *Sort) *Term {
	if t, ok := st.store[key]; ok {
		if t.S.Eq(s) {
			return t
		}
	}
	t := x.initSym(key, s, st)
	st.store[key] = t
	if x.unsignedKeys[key] && s.K == SInt {
		x.assumeGlobal(Ge(t, IntLit(0)), "unsigned:"+key)
	}
	return t
}

func (x *Exec) freshSym(base string, s *Sort) *Term {
	x.fresh++
	return Sym(fmt.Sprintf("%s!%d", base, x.fresh), s)
}

// name gives a complex term a fresh constant with a defining equation (keeps queries linear in size).
func (x *Exec) nameTerm(base string, t *Term) *Term {
	if t.Op == "const" || t.Op == "lit" || t.Op == "strlit" {
		return t
	}
	if t.Op == "-" && len(t.Args) == 1 && t.Args[0].Op == "lit" {
		return t
	}
	s := x.freshSym(base, t.S)
	x.assumptions = append(x.assumptions, Assump{T: Eq2(s, t), Def: s.Name})
	return s
}

// Eq2 builds an equation without folding (used for definitions).
func Eq2(a, b *Term) *Term {
	a, b = unifyNum(a, b)
	return mk("=", BoolS, a, b)
}

func (x *Exec) havocKey(st *State, key string) {
	old, ok := st.store[key]
	var s *Sort
	if ok {
		s = old.S
	} else if ty, ok := x.keyTypes[key]; ok {
		s = sortOf(ty)
	} else {
		delete(st.store, key)
		return
	}
	nt := x.freshSym(key, s)
	st.store[key] = nt
	if x.unsignedKeys[key] && s.K == SInt {
		x.assumptions = append(x.assumptions, Assump{T: Ge(nt, IntLit(0))})
	}
	delete(st.ptrs, key)
	delete(st.fns, key)
}

// havocRoot forgets everything stored below a root object.
func (x *Exec) havocRoot(st *State, root string) {
	if strings.ContainsAny(root, ".#") {
		return
	}
	x.genCounter++
	st.gen[root] = x.genCounter
	for k := range st.store {
		if rootOf(k) == root {
			delete(st.store, k)
		}
	}
	for k := range st.ptrs {
		if rootOf(k) == root && k != root {
			delete(st.ptrs, k)
		}
	}
}

// havocPrefix forgets key itself and every key below it (struct fields, #len, #dom).
func (x *Exec) havocPrefix(st *State, key string) {
	x.havocKey(st, key)
	for k := range st.store {
		if strings.HasPrefix(k, key+".") || strings.HasPrefix(k, key+"#") {
			x.havocKey(st, k)
		}
	}
	for k := range x.keyTypes {
		if strings.HasPrefix(k, key+".") || strings.HasPrefix(k, key+"#") {
			x.havocKey(st, k)
		}
	}
}

// ---- reading and writing locations ----

func (x *Exec) readLoc(st *State, loc *Loc) Value {
	t := loc.T
	if loc.Opaque {
		return x.freshValue("opaque", t, st)
	}
	if t == nil {
		return Value{Term: x.freshSym("untyped", US)}
	}
	switch u := t.Underlying().(type) {
	case *types.Struct:
		if len(loc.Idx) > 0 {
			x.abstract("struct element of array read: " + loc.Key)
			return x.freshValue("opaque", t, st)
		}
		v := Value{T: t, Fields: map[string]Value{}}
		for i := 0; i < u.NumFields(); i++ {
			f := u.Field(i)
			v.Fields[f.Name()] = x.readLoc(st, &Loc{Key: loc.Key + "." + f.Name(), T: f.Type(), KeyT: f.Type()})
		}
		return v
	case *types.Pointer:
		if len(loc.Idx) == 0 {
			if p, ok := st.ptrs[loc.Key]; ok {
				return Value{T: t, Ptr: p}
			}
			// a pointer we know nothing about: its pointee is a root of its own, named after the pointer
			p := &Loc{Key: loc.Key + "->", T: u.Elem(), KeyT: u.Elem()}
			st.ptrs[loc.Key] = p
			x.keyTypes[p.Key] = u.Elem()
			return Value{T: t, Ptr: p}
		}
		return Value{T: t, Ptr: &Loc{Opaque: true, T: u.Elem()}}
	case *types.Signature:
		if len(loc.Idx) == 0 {
			if c, ok := st.fns[loc.Key]; ok {
				return Value{T: t, Fn: c}
			}
		}
		return Value{T: t, Term: x.freshSym("fn", US)}
	}
	x.keyTypes[loc.Key] = x.keyTypeFor(loc)
	base := x.get(st, loc.Key, x.keySort(loc))
	cur := base
	for _, i := range loc.Idx {
		if cur.S.K != SArr {
			return x.freshValue("badindex", t, st)
		}
		cur = Select(cur, i)
	}
	v := Value{T: t, Term: cur}
	switch t.Underlying().(type) {
	case *types.Slice:
		if len(loc.Idx) == 0 {
			v.Len = x.get(st, loc.Key+"#len", IntS)
			x.assumeGlobal(Ge(v.Len, IntLit(0)), "len>=0")
		} else {
			v.Len = App("slen", IntS, cur)
		}
	case *types.Map:
		if len(loc.Idx) == 0 {
			m := t.Underlying().(*types.Map)
			v.Dom = x.get(st, loc.Key+"#dom", ArrS(sortOf(m.Key()), BoolS))
			if im, ok := m.Elem().Underlying().(*types.Map); ok {
				v.Dom2 = x.get(st, loc.Key+"#dom2", ArrS(sortOf(m.Key()), ArrS(sortOf(im.Key()), BoolS)))
			}
		}
	}
	return v
}

func (x *Exec) keySort(loc *Loc) *Sort {
	if loc.KeyT != nil {
		return sortOf(loc.KeyT)
	}
	s := sortOf(loc.T)
	for range loc.Idx {
		s = ArrS(IntS, s)
	}
	return s
}

func (x *Exec) keyTypeFor(loc *Loc) types.Type {
	if loc.KeyT != nil {
		return loc.KeyT
	}
	if len(loc.Idx) == 0 {
		return loc.T
	}
	return x.keyTypes[loc.Key]
}

func (x *Exec) freshValue(base string, t types.Type, st *State) Value {
	if t == nil {
		return Value{Term: x.freshSym(base, US)}
	}
	switch u := t.Underlying().(type) {
	case *types.Struct:
		v := Value{T: t, Fields: map[string]Value{}}
		for i := 0; i < u.NumFields(); i++ {
			v.Fields[u.Field(i).Name()] = x.freshValue(base+"."+u.Field(i).Name(), u.Field(i).Type(), st)
		}
		return v
	case *types.Pointer:
		x.fresh++
		key := fmt.Sprintf("%s!%d->", base, x.fresh)
		x.keyTypes[key] = u.Elem()
		return Value{T: t, Ptr: &Loc{Key: key, T: u.Elem(), KeyT: u.Elem()}}
	case *types.Slice:
		l := x.freshSym(base+"#len", IntS)
		x.assumeGlobal(Ge(l, IntLit(0)), "len>=0")
		return Value{T: t, Term: x.freshSym(base, sortOf(t)), Len: l}
	case *types.Map:
		return Value{T: t, Term: x.freshSym(base, sortOf(t)), Dom: x.freshSym(base+"#dom", ArrS(sortOf(u.Key()), BoolS))}
	case *types.Tuple:
		v := Value{T: t}
		for i := 0; i < u.Len(); i++ {
			v.Tuple = append(v.Tuple, x.freshValue(base, u.At(i).Type(), st))
		}
		return v
	}
	tm := x.freshSym(base, sortOf(t))
	if isUnsigned(t) {
		x.assumeGlobal(Ge(tm, IntLit(0)), "unsigned")
	}
	return Value{T: t, Term: tm}
}

func (x *Exec) zeroValue(t types.Type) Value {
	switch u := t.Underlying().(type) {
	case *types.Struct:
		v := Value{T: t, Fields: map[string]Value{}}
		for i := 0; i < u.NumFields(); i++ {
			v.Fields[u.Field(i).Name()] = x.zeroValue(u.Field(i).Type())
		}
		return v
	case *types.Pointer:
		return Value{T: t, IsNil: true, Term: nilU}
	case *types.Slice:
		return Value{T: t, Term: zeroTerm(sortOf(t)), Len: IntLit(0)}
	case *types.Map:
		return Value{T: t, Term: zeroTerm(sortOf(t)), Dom: ConstArr(ArrS(sortOf(u.Key()), BoolS), False)}
	case *types.Signature:
		return Value{T: t, IsNil: true, Term: nilU}
	}
	return Value{T: t, Term: zeroTerm(sortOf(t))}
}

func nestedStore(base *Term, idx []*Term, v *Term) *Term {
	if len(idx) == 0 {
		return v
	}
	inner := nestedStore(Select(base, idx[0]), idx[1:], v)
	return Store(base, idx[0], inner)
}

func (x *Exec) writeLoc(st *State, loc *Loc, v Value) {
	if loc.Opaque {
		x.abstract("write through unresolved pointer")
		return
	}
	t := loc.T
	if t != nil {
		switch u := t.Underlying().(type) {
		case *types.Struct:
			if len(loc.Idx) > 0 {
				x.abstract("struct element of array written: " + loc.Key)
				x.havocKey(st, loc.Key)
				return
			}
			for i := 0; i < u.NumFields(); i++ {
				f := u.Field(i)
				fv, ok := v.Fields[f.Name()]
				if !ok {
					fv = x.freshValue(loc.Key+"."+f.Name(), f.Type(), st)
				}
				x.writeLoc(st, &Loc{Key: loc.Key + "." + f.Name(), T: f.Type(), KeyT: f.Type()}, fv)
			}
			// observer pseudo-fields (".$Year" ...) of the overwritten value are forgotten
			for k := range st.store {
				if strings.HasPrefix(k, loc.Key+".$") || strings.Contains(k, ".$") && strings.HasPrefix(k, loc.Key+".") {
					x.havocKey(st, k)
				}
			}
			return
		case *types.Pointer:
			if len(loc.Idx) == 0 {
				if v.Ptr != nil {
					st.ptrs[loc.Key] = v.Ptr
				} else {
					delete(st.ptrs, loc.Key)
					st.ptrs[loc.Key] = &Loc{Opaque: true, T: u.Elem()}
				}
				x.touched(loc.Key)
				st.store[loc.Key+"#ptrset"] = x.freshSym("ptrset", BoolS)
			}
			return
		case *types.Signature:
			if len(loc.Idx) == 0 {
				if v.Fn != nil {
					st.fns[loc.Key] = v.Fn
				} else {
					delete(st.fns, loc.Key)
				}
				st.store[loc.Key+"#fnset"] = x.freshSym("fnset", BoolS)
			}
			return
		}
	}
	if v.Term == nil {
		v = x.freshValue("novalue", t, st)
	}
	x.keyTypes[loc.Key] = x.keyTypeFor(loc)
	ks := x.keySort(loc)
	var nt *Term
	if len(loc.Idx) == 0 {
		nt = v.Term
		if ks.K == SReal {
			nt = ToReal(nt)
		}
		if !nt.S.Eq(ks) {
			// sort mismatch (e.g. interface holding something): opaque
			nt = x.freshSym(loc.Key, ks)
		}
	} else {
		base := x.get(st, loc.Key, ks)
		ok := true
		cur := base.S
		for range loc.Idx {
			if cur.K != SArr {
				ok = false
				break
			}
			cur = cur.Elem
		}
		if !ok {
			x.havocKey(st, loc.Key)
			return
		}
		val := v.Term
		if cur.K == SReal {
			val = ToReal(val)
		}
		if !val.S.Eq(cur) {
			val = x.freshSym(loc.Key, cur)
		}
		nt = nestedStore(base, loc.Idx, val)
	}
	st.store[loc.Key] = x.nameTerm(loc.Key, nt)
	if t != nil && len(loc.Idx) == 0 {
		switch t.Underlying().(type) {
		case *types.Slice:
			if v.Len != nil {
				st.store[loc.Key+"#len"] = v.Len
			} else {
				st.store[loc.Key+"#len"] = x.freshSym(loc.Key+"#len", IntS)
			}
		case *types.Map:
			if v.Dom != nil {
				st.store[loc.Key+"#dom"] = v.Dom
			} else {
				x.havocKey(st, loc.Key+"#dom")
			}
			if v.Dom2 != nil {
				st.store[loc.Key+"#dom2"] = v.Dom2
			}
		}
	}
}

func (x *Exec) touched(key string) {}

// ---- merging ----

func (x *Exec) merge(a, b *State) *State {
	if a == nil || a.pc.IsFalse() {
		return b
	}
	if b == nil || b.pc.IsFalse() {
		return a
	}
	m := newState()
	m.pc = x.nameTerm("pc", Or(a.pc, b.pc))
	keys := map[string]bool{}
	for k := range a.store {
		keys[k] = true
	}
	for k := range b.store {
		keys[k] = true
	}
	ks := make([]string, 0, len(keys))
	for k := range keys {
		ks = append(ks, k)
	}
	sort.Strings(ks)
	for _, k := range ks {
		va, oka := a.store[k]
		vb, okb := b.store[k]
		if oka && !okb {
			vb = x.initSym(k, va.S, b)
		} else if okb && !oka {
			va = x.initSym(k, vb.S, a)
		}
		if va == vb || sameTerm(va, vb) {
			m.store[k] = va
			continue
		}
		if !va.S.Eq(vb.S) {
			m.store[k] = x.freshSym(k, va.S)
			continue
		}
		m.store[k] = x.nameTerm(k, Ite(a.pc, va, vb))
	}
	for k, p := range a.ptrs {
		if q, ok := b.ptrs[k]; ok && sameLoc(p, q) {
			m.ptrs[k] = p
		} else if ok {
			m.ptrs[k] = &Loc{Opaque: true, T: p.T}
		} else {
			m.ptrs[k] = p
		}
	}
	for k, q := range b.ptrs {
		if _, ok := a.ptrs[k]; !ok {
			m.ptrs[k] = q
		}
	}
	for k, f := range a.fns {
		if g, ok := b.fns[k]; !ok || g == f {
			m.fns[k] = f
		}
	}
	for k, f := range b.fns {
		if _, ok := a.fns[k]; !ok {
			m.fns[k] = f
		}
	}
	for r, g := range a.gen {
		m.gen[r] = g
	}
	for r, g := range b.gen {
		if m.gen[r] != g {
			x.genCounter++
			m.gen[r] = x.genCounter
		}
	}
	for r, g := range a.gen {
		if b.gen[r] != g {
			x.genCounter++
			m.gen[r] = x.genCounter
		}
	}
	return m
}

func sameLoc(p, q *Loc) bool {
	if p == q {
		return true
	}
	if p.Opaque || q.Opaque || p.Key != q.Key || len(p.Idx) != len(q.Idx) {
		return false
	}
	for i := range p.Idx {
		if !sameTerm(p.Idx[i], q.Idx[i]) {
			return false
		}
	}
	return true
}

func (x *Exec) mergeAll(sts []*State) *State {
	var m *State
	for _, s := range sts {
		m = x.merge(m, s)
	}
	return m
}
