package main

// Term language, constructors with light constant folding, SMT-LIB printing.

import (
	"fmt"
	"math/big"
	"sort"
	"strings"
)

type SortKind int

const (
	SInt SortKind = iota
	SReal
	SBool
	SStr // uninterpreted sort for strings
	SU   // uninterpreted sort for everything opaque (errors, interfaces, pointers ...)
	SArr // (Array idx elem)
)

type Sort struct {
	K    SortKind
	Idx  *Sort
	Elem *Sort
}

var (
	IntS  = &Sort{K: SInt}
	RealS = &Sort{K: SReal}
	BoolS = &Sort{K: SBool}
	StrS  = &Sort{K: SStr}
	US    = &Sort{K: SU}
)

func ArrS(idx, elem *Sort) *Sort { return &Sort{K: SArr, Idx: idx, Elem: elem} }

func (s *Sort) String() string {
	switch s.K {
	case SInt:
		return "Int"
	case SReal:
		return "Real"
	case SBool:
		return "Bool"
	case SStr:
		return "Str"
	case SU:
		return "U"
	case SArr:
		return "(Array " + s.Idx.String() + " " + s.Elem.String() + ")"
	}
	return "?"
}

func (s *Sort) Eq(o *Sort) bool {
	if s.K != o.K {
		return false
	}
	if s.K == SArr {
		return s.Idx.Eq(o.Idx) && s.Elem.Eq(o.Elem)
	}
	return true
}

// Term is an SMT term. Terms are immutable after construction.
type Term struct {
	Op   string // "const" (symbol), "lit", or an SMT operator / function symbol
	Name string // symbol name for const, literal text for lit
	Args []*Term
	S    *Sort
	// quantifiers: Op == "forall"/"exists", Bound are the bound symbols, Args[0] the body
	Bound []*Term
	Rat   *big.Rat // for numeric literals
	id    int
}

var termCounter int

func mk(op string, s *Sort, args ...*Term) *Term {
	termCounter++
	return &Term{Op: op, Args: args, S: s, id: termCounter}
}

func Sym(name string, s *Sort) *Term {
	termCounter++
	return &Term{Op: "const", Name: name, S: s, id: termCounter}
}

var (
	True  = &Term{Op: "lit", Name: "true", S: BoolS}
	False = &Term{Op: "lit", Name: "false", S: BoolS}
)

func IntLit(n int64) *Term {
	return &Term{Op: "lit", S: IntS, Rat: new(big.Rat).SetInt64(n)}
}

func BigIntLit(n *big.Int) *Term {
	return &Term{Op: "lit", S: IntS, Rat: new(big.Rat).SetInt(n)}
}

func RealLit(r *big.Rat) *Term {
	return &Term{Op: "lit", S: RealS, Rat: new(big.Rat).Set(r)}
}

func RealLitF(f float64) *Term {
	r := new(big.Rat)
	r.SetFloat64(f)
	return RealLit(r)
}

func (t *Term) IsLit() bool  { return t.Op == "lit" }
func (t *Term) IsTrue() bool { return t == True || (t.Op == "lit" && t.Name == "true") }
func (t *Term) IsFalse() bool {
	return t == False || (t.Op == "lit" && t.Name == "false")
}
func (t *Term) IsNum() bool { return t.Op == "lit" && t.Rat != nil }

func boolLit(b bool) *Term {
	if b {
		return True
	}
	return False
}

// structural equality (cheap, bounded depth)
func sameTerm(a, b *Term) bool {
	if a == b {
		return true
	}
	if a.Op != b.Op || len(a.Args) != len(b.Args) || a.Name != b.Name {
		return false
	}
	if a.Op == "lit" {
		if a.Rat != nil && b.Rat != nil {
			return a.Rat.Cmp(b.Rat) == 0 && a.S.K == b.S.K
		}
		return a.Name == b.Name && a.Rat == nil && b.Rat == nil
	}
	if a.Op == "const" {
		return a.Name == b.Name
	}
	if a.Op == "forall" || a.Op == "exists" {
		return false
	}
	for i := range a.Args {
		if !sameTerm(a.Args[i], b.Args[i]) {
			return false
		}
	}
	return true
}

func Not(a *Term) *Term {
	if a.IsTrue() {
		return False
	}
	if a.IsFalse() {
		return True
	}
	if a.Op == "not" {
		return a.Args[0]
	}
	return mk("not", BoolS, a)
}

func And(xs ...*Term) *Term {
	var out []*Term
	for _, x := range xs {
		if x == nil || x.IsTrue() {
			continue
		}
		if x.IsFalse() {
			return False
		}
		if x.Op == "and" {
			out = append(out, x.Args...)
		} else {
			out = append(out, x)
		}
	}
	if len(out) == 0 {
		return True
	}
	if len(out) == 1 {
		return out[0]
	}
	return mk("and", BoolS, out...)
}

func Or(xs ...*Term) *Term {
	var out []*Term
	for _, x := range xs {
		if x == nil || x.IsFalse() {
			continue
		}
		if x.IsTrue() {
			return True
		}
		if x.Op == "or" {
			out = append(out, x.Args...)
		} else {
			out = append(out, x)
		}
	}
	if len(out) == 0 {
		return False
	}
	if len(out) == 1 {
		return out[0]
	}
	return mk("or", BoolS, out...)
}

func Implies(a, b *Term) *Term {
	if a.IsTrue() {
		return b
	}
	if a.IsFalse() || b.IsTrue() {
		return True
	}
	return mk("=>", BoolS, a, b)
}

func Ite(c, a, b *Term) *Term {
	if c.IsTrue() {
		return a
	}
	if c.IsFalse() {
		return b
	}
	if sameTerm(a, b) {
		return a
	}
	a, b = unifyNum(a, b)
	return mk("ite", a.S, c, a, b)
}

// unifyNum coerces Int to Real when sorts are mixed.
func unifyNum(a, b *Term) (*Term, *Term) {
	if a.S.K == SReal && b.S.K == SInt {
		return a, ToReal(b)
	}
	if a.S.K == SInt && b.S.K == SReal {
		return ToReal(a), b
	}
	return a, b
}

func ToReal(a *Term) *Term {
	if a.S.K == SReal {
		return a
	}
	if a.IsNum() {
		return RealLit(a.Rat)
	}
	return mk("to_real", RealS, a)
}

// ToIntFloor: floor of a real
func ToIntFloor(a *Term) *Term {
	if a.S.K == SInt {
		return a
	}
	if a.IsNum() {
		f := new(big.Int).Div(a.Rat.Num(), a.Rat.Denom()) // Euclidean, denominators positive => floor
		return BigIntLit(f)
	}
	if a.Op == "to_real" {
		return a.Args[0]
	}
	return mk("to_int", IntS, a)
}

// TruncToInt: Go's int(x) for float x
func TruncToInt(a *Term) *Term {
	if a.S.K == SInt {
		return a
	}
	if a.Op == "to_real" {
		return a.Args[0]
	}
	if a.IsNum() {
		q := new(big.Int).Quo(a.Rat.Num(), a.Rat.Denom())
		return BigIntLit(q)
	}
	return Ite(Ge(a, RealLitF(0)), ToIntFloor(a), Neg(ToIntFloor(Neg(a))))
}

func Eq(a, b *Term) *Term {
	a, b = unifyNum(a, b)
	if sameTerm(a, b) {
		return True
	}
	if a.IsNum() && b.IsNum() {
		return boolLit(a.Rat.Cmp(b.Rat) == 0)
	}
	if a.S.K == SBool {
		if a.IsTrue() {
			return b
		}
		if b.IsTrue() {
			return a
		}
		if a.IsFalse() {
			return Not(b)
		}
		if b.IsFalse() {
			return Not(a)
		}
	}
	return mk("=", BoolS, a, b)
}

func Ne(a, b *Term) *Term { return Not(Eq(a, b)) }

func cmp(op string, a, b *Term) *Term {
	a, b = unifyNum(a, b)
	if a.IsNum() && b.IsNum() {
		c := a.Rat.Cmp(b.Rat)
		switch op {
		case "<":
			return boolLit(c < 0)
		case "<=":
			return boolLit(c <= 0)
		case ">":
			return boolLit(c > 0)
		case ">=":
			return boolLit(c >= 0)
		}
	}
	if sameTerm(a, b) {
		return boolLit(op == "<=" || op == ">=")
	}
	return mk(op, BoolS, a, b)
}

func Lt(a, b *Term) *Term { return cmp("<", a, b) }
func Le(a, b *Term) *Term { return cmp("<=", a, b) }
func Gt(a, b *Term) *Term { return cmp(">", a, b) }
func Ge(a, b *Term) *Term { return cmp(">=", a, b) }

func isZero(a *Term) bool { return a.IsNum() && a.Rat.Sign() == 0 }
func isOne(a *Term) bool  { return a.IsNum() && a.Rat.Cmp(big.NewRat(1, 1)) == 0 }

func numLit(r *big.Rat, s *Sort) *Term {
	if s.K == SInt {
		return &Term{Op: "lit", S: IntS, Rat: r}
	}
	return &Term{Op: "lit", S: RealS, Rat: r}
}

func Add(a, b *Term) *Term {
	a, b = unifyNum(a, b)
	if a.IsNum() && b.IsNum() {
		return numLit(new(big.Rat).Add(a.Rat, b.Rat), a.S)
	}
	if isZero(a) {
		return b
	}
	if isZero(b) {
		return a
	}
	return mk("+", a.S, a, b)
}

func Sub(a, b *Term) *Term {
	a, b = unifyNum(a, b)
	if a.IsNum() && b.IsNum() {
		return numLit(new(big.Rat).Sub(a.Rat, b.Rat), a.S)
	}
	if isZero(b) {
		return a
	}
	if sameTerm(a, b) {
		return numLit(new(big.Rat), a.S)
	}
	return mk("-", a.S, a, b)
}

func Neg(a *Term) *Term {
	if a.IsNum() {
		return numLit(new(big.Rat).Neg(a.Rat), a.S)
	}
	if a.Op == "-" && len(a.Args) == 1 {
		return a.Args[0]
	}
	return mk("-", a.S, a)
}

func Mul(a, b *Term) *Term {
	a, b = unifyNum(a, b)
	if a.IsNum() && b.IsNum() {
		return numLit(new(big.Rat).Mul(a.Rat, b.Rat), a.S)
	}
	if isZero(a) || isZero(b) {
		return numLit(new(big.Rat), a.S)
	}
	if isOne(a) {
		return b
	}
	if isOne(b) {
		return a
	}
	return mk("*", a.S, a, b)
}

// RDiv is real division.
func RDiv(a, b *Term) *Term {
	a, b = ToReal(a), ToReal(b)
	if a.IsNum() && b.IsNum() && b.Rat.Sign() != 0 {
		return RealLit(new(big.Rat).Quo(a.Rat, b.Rat))
	}
	if isOne(b) {
		return a
	}
	if b.IsNum() && b.Rat.Sign() != 0 {
		// multiply by the reciprocal: keeps the query linear
		return Mul(a, RealLit(new(big.Rat).Inv(b.Rat)))
	}
	return mk("/", RealS, a, b)
}

// IDiv is Go's truncating integer division.
func IDiv(a, b *Term) *Term {
	if a.IsNum() && b.IsNum() && b.Rat.Sign() != 0 {
		q := new(big.Int).Quo(a.Rat.Num(), b.Rat.Num())
		return BigIntLit(q)
	}
	zero := IntLit(0)
	ed := func(x, y *Term) *Term { return mk("div", IntS, x, y) }
	if b.IsNum() && b.Rat.Sign() > 0 {
		return Ite(Ge(a, zero), ed(a, b), Neg(ed(Neg(a), b)))
	}
	return Ite(Ge(a, zero),
		Ite(Gt(b, zero), ed(a, b), Neg(ed(a, Neg(b)))),
		Ite(Gt(b, zero), Neg(ed(Neg(a), b)), ed(Neg(a), Neg(b))))
}

// IMod is Go's % (sign of the dividend).
func IMod(a, b *Term) *Term {
	if a.IsNum() && b.IsNum() && b.Rat.Sign() != 0 {
		r := new(big.Int).Rem(a.Rat.Num(), b.Rat.Num())
		return BigIntLit(r)
	}
	return Sub(a, Mul(b, IDiv(a, b)))
}

func Select(a, i *Term) *Term {
	if a.S.K != SArr {
		panic("select on non-array " + a.S.String())
	}
	// read over write with literal indices
	cur := a
	for cur.Op == "store" {
		j := cur.Args[1]
		if sameTerm(i, j) {
			return cur.Args[2]
		}
		if i.IsNum() && j.IsNum() {
			cur = cur.Args[0]
			continue
		}
		break
	}
	if cur.Op == "constarr" {
		return cur.Args[0]
	}
	return mk("select", cur.S.Elem, cur, i)
}

func Store(a, i, v *Term) *Term {
	if a.S.K != SArr {
		panic("store on non-array")
	}
	if a.S.Elem.K == SReal {
		v = ToReal(v)
	}
	return mk("store", a.S, a, i, v)
}

// ConstArr is ((as const S) v)
func ConstArr(s *Sort, v *Term) *Term {
	return mk("constarr", s, v)
}

func App(fn string, s *Sort, args ...*Term) *Term { return mk(fn, s, args...) }

func Forall(bound []*Term, body *Term) *Term {
	if body.IsTrue() {
		return True
	}
	t := mk("forall", BoolS, body)
	t.Bound = bound
	return t
}

func Exists(bound []*Term, body *Term) *Term {
	if body.IsFalse() {
		return False
	}
	t := mk("exists", BoolS, body)
	t.Bound = bound
	return t
}

// ---------- printing ----------

func quoteSym(n string) string {
	simple := true
	for _, c := range n {
		if !(c >= 'a' && c <= 'z' || c >= 'A' && c <= 'Z' || c >= '0' && c <= '9' || c == '_' || c == '.' || c == '!' || c == '$') {
			simple = false
			break
		}
	}
	if simple && len(n) > 0 && !(n[0] >= '0' && n[0] <= '9') {
		return n
	}
	return "|" + n + "|"
}

func ratString(r *big.Rat, s *Sort) string {
	if s.K == SInt {
		n := r.Num()
		if n.Sign() < 0 {
			return "(- " + new(big.Int).Neg(n).String() + ")"
		}
		return n.String()
	}
	num, den := r.Num(), r.Denom()
	neg := num.Sign() < 0
	an := new(big.Int).Abs(num)
	var body string
	if den.Cmp(big.NewInt(1)) == 0 {
		body = an.String() + ".0"
	} else {
		body = "(/ " + an.String() + ".0 " + den.String() + ".0)"
	}
	if neg {
		return "(- " + body + ")"
	}
	return body
}

type printer struct {
	ufmul       bool             // print products/quotients of two non-literal terms as uninterpreted functions
	noPoly      bool             // (internal) the next term is an atom: do not normalise it itself
	defs        map[string]*Term // definitions of named scalars (for polynomial expansion)
	inlineDepth int
	sb          *strings.Builder
	syms        map[string]*Term // const symbols encountered
	funs        map[string]*Term // uninterpreted function applications (first seen)
	strLits     map[string]bool
}

var builtinOps = map[string]bool{
	"not": true, "and": true, "or": true, "=>": true, "ite": true, "=": true, "<": true, "<=": true,
	">": true, ">=": true, "+": true, "-": true, "*": true, "/": true, "div": true, "mod": true,
	"select": true, "store": true, "to_real": true, "to_int": true, "distinct": true,
}

func (p *printer) term(t *Term) {
	switch t.Op {
	case "lit":
		if t.Rat != nil {
			p.sb.WriteString(ratString(t.Rat, t.S))
		} else {
			p.sb.WriteString(t.Name)
		}
	case "const":
		p.syms[t.Name] = t
		p.sb.WriteString(quoteSym(t.Name))
	case "strlit":
		p.strLits[t.Name] = true
		p.sb.WriteString(quoteSym("str:" + t.Name))
	case "constarr":
		p.sb.WriteString("((as const " + t.S.String() + ") ")
		p.term(t.Args[0])
		p.sb.WriteString(")")
	case "forall", "exists":
		p.sb.WriteString("(" + t.Op + " (")
		for _, b := range t.Bound {
			p.sb.WriteString("(" + quoteSym(b.Name) + " " + b.S.String() + ")")
		}
		p.sb.WriteString(") ")
		// bound symbols must not be declared as constants
		saved := map[string]*Term{}
		for _, b := range t.Bound {
			if old, ok := p.syms[b.Name]; ok {
				saved[b.Name] = old
			}
		}
		p.term(t.Args[0])
		for _, b := range t.Bound {
			if old, ok := saved[b.Name]; ok {
				p.syms[b.Name] = old
			} else {
				delete(p.syms, b.Name)
			}
		}
		p.sb.WriteString(")")
	default:
		if p.ufmul {
			skip := p.noPoly
			p.noPoly = false
			isArith := (t.S.K == SReal || t.S.K == SInt) && (t.Op == "+" || t.Op == "-" || t.Op == "*")
			if isArith && !skip {
				if q := p.poly(t); q != nil {
					p.printPoly(q, t.S)
					return
				}
			}
			if t.Op == "*" && len(t.Args) == 2 && !t.Args[0].IsNum() && !t.Args[1].IsNum() {
				// too large to expand: plain uninterpreted product
				name := "nlmul_" + t.S.String()
				a, b := p.atomString(t.Args[0]), p.atomString(t.Args[1])
				if a > b {
					a, b = b, a
				}
				if _, ok := p.funs[name]; !ok {
					p.funs[name] = &Term{Op: name, S: t.S, Args: []*Term{{S: t.S}, {S: t.S}}}
				}
				p.sb.WriteString("(" + name + " " + a + " " + b + ")")
				return
			}
			if t.Op == "/" && len(t.Args) == 2 && !t.Args[1].IsNum() {
				if _, ok := p.funs["nldiv"]; !ok {
					p.funs["nldiv"] = &Term{Op: "nldiv", S: RealS, Args: []*Term{{S: RealS}, {S: RealS}}}
				}
				p.sb.WriteString("(nldiv ")
				p.term(t.Args[0])
				p.sb.WriteString(" ")
				p.term(t.Args[1])
				p.sb.WriteString(")")
				return
			}
		}
		if !builtinOps[t.Op] {
			if _, ok := p.funs[t.Op]; !ok {
				p.funs[t.Op] = t
			}
		}
		if len(t.Args) == 0 {
			p.sb.WriteString(quoteSym(t.Op))
			return
		}
		p.sb.WriteString("(")
		if builtinOps[t.Op] {
			p.sb.WriteString(t.Op)
		} else {
			p.sb.WriteString(quoteSym(t.Op))
		}
		for _, a := range t.Args {
			p.sb.WriteString(" ")
			p.term(a)
		}
		p.sb.WriteString(")")
	}
}

func StrLit(s string) *Term {
	termCounter++
	return &Term{Op: "strlit", Name: s, S: StrS, id: termCounter}
}

func termString(t *Term) string {
	p := &printer{sb: &strings.Builder{}, syms: map[string]*Term{}, funs: map[string]*Term{}, strLits: map[string]bool{}}
	p.term(t)
	return p.sb.String()
}

// collectSyms returns the set of free constant symbol names of t (memoised by term id).
func collectSyms(t *Term, out map[string]bool, seen map[*Term]bool) {
	if seen[t] {
		return
	}
	seen[t] = true
	switch t.Op {
	case "const":
		out[t.Name] = true
	case "lit", "strlit":
	default:
		for _, a := range t.Args {
			collectSyms(a, out, seen)
		}
	}
}

// Script builds a complete SMT-LIB script: asserts all of `asserts`, check-sat and optionally get-value.
func Script(asserts []*Term, getValues []*Term, logicHint string) string {
	return ScriptOpt(asserts, getValues, logicHint, false)
}

func ScriptOpt(asserts []*Term, getValues []*Term, logicHint string, ufmul bool) string {
	return ScriptDefs(asserts, getValues, logicHint, ufmul, nil)
}

func ScriptDefs(asserts []*Term, getValues []*Term, logicHint string, ufmul bool, defs map[string]*Term) string {
	p := &printer{ufmul: ufmul, defs: defs, sb: &strings.Builder{}, syms: map[string]*Term{}, funs: map[string]*Term{}, strLits: map[string]bool{}}
	var bodies []string
	for _, a := range asserts {
		p.sb.Reset()
		p.term(a)
		bodies = append(bodies, p.sb.String())
	}
	var gv []string
	for _, v := range getValues {
		p.sb.Reset()
		p.term(v)
		gv = append(gv, p.sb.String())
	}
	var out strings.Builder
	out.WriteString("(set-option :produce-models true)\n")
	if logicHint == "" {
		logicHint = "ALL"
	}
	out.WriteString("(set-logic " + logicHint + ")\n")
	out.WriteString("(declare-sort Str 0)\n(declare-sort U 0)\n")
	names := make([]string, 0, len(p.syms))
	for n := range p.syms {
		names = append(names, n)
	}
	sort.Strings(names)
	for _, n := range names {
		out.WriteString("(declare-fun " + quoteSym(n) + " () " + p.syms[n].S.String() + ")\n")
	}
	var lits []string
	for s := range p.strLits {
		lits = append(lits, s)
	}
	sort.Strings(lits)
	for _, s := range lits {
		out.WriteString("(declare-fun " + quoteSym("str:"+s) + " () Str)\n")
	}
	if len(lits) > 1 {
		out.WriteString("(assert (distinct")
		for _, s := range lits {
			out.WriteString(" " + quoteSym("str:"+s))
		}
		out.WriteString("))\n")
	}
	fnames := make([]string, 0, len(p.funs))
	for n := range p.funs {
		fnames = append(fnames, n)
	}
	sort.Strings(fnames)
	for _, n := range fnames {
		f := p.funs[n]
		var as []string
		for _, a := range f.Args {
			as = append(as, a.S.String())
		}
		out.WriteString("(declare-fun " + quoteSym(n) + " (" + strings.Join(as, " ") + ") " + f.S.String() + ")\n")
	}
	for _, b := range bodies {
		out.WriteString("(assert " + b + ")\n")
	}
	out.WriteString("(check-sat)\n")
	if len(gv) > 0 {
		out.WriteString("(get-value (" + strings.Join(gv, " ") + "))\n")
	}
	return out.String()
}

func fmtTerm(t *Term) string { return fmt.Sprint(termString(t)) }
