package main

// Polynomial normal form for the "uninterpreted multiplication" attempt: every maximal arithmetic term is
// expanded into a sum of monomials over atoms (non-arithmetic sub-terms); monomials of degree >= 2 are printed
// as nested applications of an uninterpreted function over the sorted atoms. An unsat answer under this
// encoding is an unsat answer for real arithmetic (real multiplication is one interpretation of the function).

import (
	"math/big"
	"sort"
	"strings"
)

type mono struct {
	atoms []string // printed atoms, sorted
	coef  *big.Rat
}

type polyT map[string]*mono // key: strings.Join(atoms, " * ")

const polyLimit = 400

func (p *printer) atomString(t *Term) string {
	sub := &printer{ufmul: true, sb: &strings.Builder{}, syms: p.syms, funs: p.funs, strLits: p.strLits, noPoly: true, defs: p.defs}
	sub.term(t)
	return sub.sb.String()
}

func polyConst(r *big.Rat) polyT {
	if r.Sign() == 0 {
		return polyT{}
	}
	return polyT{"": &mono{coef: new(big.Rat).Set(r)}}
}

func polyAdd(a, b polyT, sign int) polyT {
	out := polyT{}
	for k, m := range a {
		out[k] = &mono{atoms: m.atoms, coef: new(big.Rat).Set(m.coef)}
	}
	for k, m := range b {
		c := new(big.Rat).Set(m.coef)
		if sign < 0 {
			c.Neg(c)
		}
		if o, ok := out[k]; ok {
			o.coef.Add(o.coef, c)
			if o.coef.Sign() == 0 {
				delete(out, k)
			}
		} else {
			out[k] = &mono{atoms: m.atoms, coef: c}
		}
	}
	return out
}

func polyMul(a, b polyT) polyT {
	if len(a)*len(b) > polyLimit {
		return nil
	}
	out := polyT{}
	for _, m := range a {
		for _, n := range b {
			atoms := append(append([]string{}, m.atoms...), n.atoms...)
			sort.Strings(atoms)
			k := strings.Join(atoms, " * ")
			c := new(big.Rat).Mul(m.coef, n.coef)
			if o, ok := out[k]; ok {
				o.coef.Add(o.coef, c)
				if o.coef.Sign() == 0 {
					delete(out, k)
				}
			} else {
				out[k] = &mono{atoms: atoms, coef: c}
			}
		}
	}
	return out
}

// poly converts an arithmetic term; returns nil if it should be treated as an atom by the caller.
func (p *printer) poly(t *Term) polyT {
	switch {
	case t.IsNum():
		return polyConst(t.Rat)
	case t.Op == "const" && p.defs != nil && p.inlineDepth < 8:
		// a named scalar whose definition is arithmetic: expand through the definition
		if d, ok := p.defs[t.Name]; ok && (d.Op == "+" || d.Op == "-" || d.Op == "*" || d.IsNum()) {
			p.inlineDepth++
			q := p.poly(d)
			p.inlineDepth--
			return q
		}
		return nil
	case t.Op == "+":
		acc := polyT{}
		for _, a := range t.Args {
			pa := p.polyOrAtom(a)
			acc = polyAdd(acc, pa, 1)
		}
		return acc
	case t.Op == "-" && len(t.Args) == 1:
		return polyAdd(polyT{}, p.polyOrAtom(t.Args[0]), -1)
	case t.Op == "-":
		acc := p.polyOrAtom(t.Args[0])
		for _, a := range t.Args[1:] {
			acc = polyAdd(acc, p.polyOrAtom(a), -1)
		}
		return acc
	case t.Op == "*":
		acc := polyConst(big.NewRat(1, 1))
		for _, a := range t.Args {
			r := polyMul(acc, p.polyOrAtom(a))
			if r == nil {
				return nil
			}
			acc = r
		}
		return acc
	}
	return nil
}

func (p *printer) polyOrAtom(t *Term) polyT {
	if q := p.poly(t); q != nil {
		return q
	}
	a := p.atomString(t)
	return polyT{a: &mono{atoms: []string{a}, coef: big.NewRat(1, 1)}}
}

func (p *printer) printPoly(q polyT, s *Sort) {
	if len(q) == 0 {
		p.sb.WriteString(ratString(new(big.Rat), s))
		return
	}
	keys := make([]string, 0, len(q))
	for k := range q {
		keys = append(keys, k)
	}
	sort.Strings(keys)
	fname := "nlmul_" + s.String()
	var parts []string
	for _, k := range keys {
		m := q[k]
		var ms string
		switch len(m.atoms) {
		case 0:
			parts = append(parts, ratString(m.coef, s))
			continue
		case 1:
			ms = m.atoms[0]
		default:
			// nested, right associated over sorted atoms
			ms = m.atoms[len(m.atoms)-1]
			for i := len(m.atoms) - 2; i >= 0; i-- {
				ms = "(" + fname + " " + m.atoms[i] + " " + ms + ")"
			}
			if _, ok := p.funs[fname]; !ok {
				p.funs[fname] = &Term{Op: fname, S: s, Args: []*Term{{S: s}, {S: s}}}
			}
		}
		if m.coef.Cmp(big.NewRat(1, 1)) == 0 {
			parts = append(parts, ms)
		} else {
			parts = append(parts, "(* "+ratString(m.coef, s)+" "+ms+")")
		}
	}
	if len(parts) == 1 {
		p.sb.WriteString(parts[0])
		return
	}
	p.sb.WriteString("(+ " + strings.Join(parts, " ") + ")")
}
