//go:build verif

// Contracts for the simulator's command line front end (comment-only; build tag verif). See /verif/DESIGN.md.

package main

// C17: "-lines a-b" is parsed to start index a-1 and end line b ("a-end": open end).
// first/last are the numbers the two strconv.ParseUint calls return (text layer outside the verifier).
//@ region main#lines from "splitstr := hermes.Explode(argsWithoutProg[i+1]" to "if len(splitstr) == 2 {"
//@   serves C17
//@   ghost var first int
//@   ghost var last int
//@   after call strconv.ParseUint#2: ghost first = res0
//@   after call strconv.ParseUint#3: ghost last = res0
//@   requires unset: startLine == 0 && endLine == 0
//@   ensures start: len(splitstr) == 2 ==> startLine == first - 1
//@   ensures end: len(splitstr) == 2 && splitstr[1] != "end" ==> endLine == last && first <= last
//@   ensures open: len(splitstr) == 2 && splitstr[1] == "end" ==> endLine == 0

// C17: the dispatch loop starts a run for exactly the indices startLine <= i < numberOfLines
// (numberOfLines <= 0: to the end) of the batch, each once. started[k] counts go-statements for index k.
//@ func doConcurrentBatchRun
//@   serves C17
//@   ghost var started []int
//@   at call session.Run: ghost started = store(started, i, started[i] + 1)
//@   requires conc: concurrentOperations >= 1
//@   requires start: startLine >= 0
//@   requires none: forall(k, 0, len(configLines), started[k] == 0)
//@   ensures window: forall(k, 0, len(configLines), started[k] == ite(startLine <= k && (numberOfLines <= 0 || k < numberOfLines), 1, 0))
// C11: every run that was started is waited for (its result is received) before the dispatcher prints the summary:
// nstart counts go-statements, ncollect counts results taken from the result channel; activeRuns is their difference.
//@   serves C11
//@   ghost var nstart int = 0
//@   ghost var ncollect int = 0
//@   at call session.Run: ghost nstart = nstart + 1
//@   after stmt "activeRuns--": ghost ncollect = ncollect + 1
//@   ensures[C11] allcollected: ncollect == nstart
// C17/C11: every run is given the dispatcher's own result channel and its own log channel (a run without log channel
// reports a failure by aborting the PROCESS - Run#epilogue - which would take the rest of the line range with it)
//@   ghost var ownchannels bool = true
//@   at call session.Run: ghost ownchannels = ownchannels && arg3 == resultChannel && arg4 == logOutputChan
//@   ensures[C11,C17] channels: ownchannels
//@ loop doConcurrentBatchRun#1
//@   invariant range: 0 <= \i && \i <= len(configLines)
//@   invariant[C11,C17] channels: ownchannels
//@   invariant[C11] active: activeRuns == nstart - ncollect && activeRuns >= 0
//@   invariant slots: activeRuns <= concurrentOperations
//@   invariant done: forall(k, 0, \i, started[k] == ite(startLine <= k && (numberOfLines <= 0 || k < numberOfLines), 1, 0))
//@   invariant rest: forall(k, \i, len(configLines), started[k] == 0)
//@   invariant notyet: numberOfLines > 0 ==> \i <= numberOfLines || \i <= startLine
//@ loop doConcurrentBatchRun#2
//@   invariant slots: activeRuns <= concurrentOperations
//@   invariant[C11] active: activeRuns == nstart - ncollect && activeRuns >= 0
//@   invariant frame: started == pre(started)
//@ loop doConcurrentBatchRun#3
//@   invariant frame: started == pre(started)
//@   invariant[C11] active: activeRuns == nstart - ncollect && activeRuns >= 0
//@ loop doConcurrentBatchRun#4
//@   invariant frame: started == pre(started)

// Composition: a range "lo-hi" printed by the calculator, parsed by main#lines (start = lo-1, end = hi) and
// dispatched by doConcurrentBatchRun#window, runs exactly the batch lines lo..hi (1-based); contiguous
// disjoint ranges covering 1..L therefore run every line exactly once.
//@ lemma C17-composition
//@   serves C17
//@   var lo int
//@   var hi int
//@   var k int
//@   var L int
//@   assume 1 <= lo && lo <= hi && hi <= L && 0 <= k && k < L
//@   prove member: iff(lo - 1 <= k && (hi <= 0 || k < hi), lo <= k + 1 && k + 1 <= hi)
//@ lemma C17-partition
//@   serves C17
//@   var n int
//@   var L int
//@   var line int
//@   var rlo []int
//@   var rhi []int
//@   assume n >= 1 && rlo[0] == 1 && rhi[n-1] == L && 1 <= line && line <= L
//@   assume forall(j, 1, n, rlo[j] == rhi[j-1] + 1)
//@   assume forall(j, 0, n, rlo[j] <= rhi[j])
//@   assume forall(j, 0, n, forall(m, j+1, n, rhi[j] < rlo[m]))
//@   prove disjoint: forall(j, 0, n, forall(m, 0, n, rlo[j] <= line && line <= rhi[j] && rlo[m] <= line && line <= rhi[m] ==> j == m))

// C11: the error summary gains exactly one line per failed result and none for a successful one
// (the closure returned by checkResultForError; errSummary is its captured list).
//@ func checkResultForError$1
//@   serves C11
//@   ensures oneline: len(errSummary) == old(len(errSummary)) + ite(result.Success, 0, 1)
//@   ensures kept: forall(k, 0, old(len(errSummary)), errSummary[k] == old(errSummary[k]))
//@   ensures returned: len(result0) == len(errSummary)

// C17: the batch lines the simulator numbers are exactly the lines bufio.Scanner yields (LF or CRLF endings stripped by
// the scanner) whose length is not zero, in file order - the same notion of "non-empty line" the calculator's line
// count is checked against (bounded stand-in C17/bounded:lineCounter). kept counts the scanner lines with len > 0.
//@ region main#batchread from "scanner := bufio.NewScanner(file)" to "for scanner.Scan() {"
//@   serves C17
//@   ghost var kept int = 0
//@   after stmt "line := scanner.Text()": ghost kept = kept + ite(len(line) > 0, 1, 0)
//@   ensures count: len(configLines) == old(len(configLines)) + kept
//@   ensures prefix: forall(k, 0, old(len(configLines)), configLines[k] == old(configLines[k]))
//@ loop main@"for scanner.Scan() { line := scanner.Text()"
//@   invariant count: len(configLines) == pre(len(configLines)) + kept && kept >= 0
//@   invariant prefix: forall(k, 0, pre(len(configLines)), configLines[k] == pre(configLines[k]))
//@   invariant nonempty: forall(k, pre(len(configLines)), len(configLines), len(configLines[k]) > 0)

// C17: the parsed line range reaches the dispatcher unchanged (start index and END LINE, not a count: the dispatch loop
// uses its fourth argument as an exclusive end index), and all lines that were read are handed over
//@ region main#dispatch from "if len(configLines) > 0 {" to "if len(configLines) > 0 {"
//@   serves C17
//@   opaque doConcurrentBatchRun
//@   ghost var calls int = 0
//@   ghost var passedStart int
//@   ghost var passedEnd int
//@   ghost var passedLines int
//@   at call doConcurrentBatchRun: ghost calls = calls + 1
//@   at call doConcurrentBatchRun: ghost passedStart = arg2
//@   at call doConcurrentBatchRun: ghost passedEnd = arg3
//@   at call doConcurrentBatchRun: ghost passedLines = len(arg5)
//@   ensures once: len(configLines) > 0 ==> calls == 1
//@   ensures range: len(configLines) > 0 ==> passedStart == startLine && passedEnd == endLine && passedLines == len(configLines)
