//go:build verif

// Contracts for the batch calculator (comment-only; build tag verif). See /verif/DESIGN.md.

package main

// C17: the ranges printed by -list. Ghost list R = (rlo[k], rhi[k]) for k < cnt, appended at every
// fmt.Sprintf("%d-%d", a, b); printed counts the fmt.Print calls that emit the list.
//@ region main#list from "if returnList {" to "if returnList {"
//@   serves C17
//@   ghost var cnt int
//@   ghost var rlo []int
//@   ghost var rhi []int
//@   ghost var printed int
//@   at call fmt.Sprintf: ghost rlo = store(rlo, cnt, arg1)
//@   at call fmt.Sprintf: ghost rhi = store(rhi, cnt, arg2)
//@   at call fmt.Sprintf: ghost cnt = cnt + 1
//@   at call fmt.Print: ghost printed = printed + 1
//@   safety[C17] div uint
//@   requires nodes: numNodes >= 1
//@   requires lines: lines >= 1
//@   requires ghost0: cnt == 0 && printed == 0
//@   requires list: returnList
//@   ensures count: cnt == min(lines, numNodes)
//@   ensures first: rlo[0] == 1
//@   ensures last: rhi[cnt-1] == lines
//@   ensures contiguous: forall(k, 1, cnt, rlo[k] == rhi[k-1] + 1)
//@   ensures nonempty: forall(k, 0, cnt, rlo[k] <= rhi[k])
//@   ensures balanced: forall(k, 0, cnt, rhi[k] - rlo[k] + 1 == tdiv(lines, numNodes) || rhi[k] - rlo[k] + 1 == tdiv(lines, numNodes) + 1 || lines < numNodes)
//@   ensures printed: printed == 1
//@ loop main#2
//@   invariant range: 1 <= i && i <= lines + 1
//@   invariant count: cnt == i - 1 && printed == 0
//@   invariant ranges: forall(k, 0, cnt, rlo[k] == k + 1 && rhi[k] == k + 1)
//@ loop main#3
//@   invariant range: 1 <= i && i <= numNodes + 1
//@   invariant count: cnt == i - 1 && printed == 0
//@   invariant pos: lastSlice == (i-1)*sizePerSlice + min(i-1, rest)
//@   invariant first: cnt > 0 ==> rlo[0] == 1
//@   invariant last: cnt > 0 ==> rhi[cnt-1] == lastSlice
//@   invariant start: cnt == 0 ==> lastSlice == 0
//@   invariant contiguous: forall(k, 1, cnt, rlo[k] == rhi[k-1] + 1)
//@   invariant sizes: forall(k, 0, cnt, rhi[k] - rlo[k] + 1 == sizePerSlice || rhi[k] - rlo[k] + 1 == sizePerSlice + 1)

// the job-array size reported by -size equals the number of ranges of -list
//@ region main#size from "if returnSize {" to "if returnSize {"
//@   serves C17
//@   ghost var shown int
//@   at call fmt.Print: ghost shown = arg0
//@   safety[C17] div
//@   requires nodes: numNodes >= 1
//@   requires size: returnSize
//@   exit-ensures size: shown == min(lines, numNodes)
