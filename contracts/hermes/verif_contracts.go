//go:build verif

// Contracts for package hermes (comment-only file; build tag verif).
// Checked by /verif/bin/hvc against the real function bodies on every run.
// Syntax: see /verif/DESIGN.md section 2.2.

package hermes

// ---------------------------------------------------------------------------
// Spec functions written from the calendar (not from the code), 1901..2099.
//@ global define leap(y) = y % 4 == 0
//@ global define mdays(y, m) = ite(m == 2, ite(leap(y), 29, 28), ite(m == 4 || m == 6 || m == 9 || m == 11, 30, 31))
//@ global define cum(y, m) = ite(m > 1, 31, 0) + ite(m > 2, ite(leap(y), 29, 28), 0) + ite(m > 3, 31, 0) + ite(m > 4, 30, 0) + ite(m > 5, 31, 0) + ite(m > 6, 30, 0) + ite(m > 7, 31, 0) + ite(m > 8, 31, 0) + ite(m > 9, 30, 0) + ite(m > 10, 31, 0) + ite(m > 11, 30, 0)
//@ global define doy(y, m, d) = cum(y, m) + d
//@ global define daynumber(y, m, d) = 365*(y-1901) + tdiv(y-1901, 4) + doy(y, m, d)
//@ global define validDate(y, m, d) = 1901 <= y && y <= 2099 && 1 <= m && m <= 12 && 1 <= d && d <= mdays(y, m)

// ---------------------------------------------------------------------------
// C12  date conversion

//@ func KalenderDate
//@   serves C12, C05
//@   requires domain: 1 <= MASDAT && MASDAT <= 72684
//@   ensures valid: validDate(year, month, day)
//@   ensures inverse: daynumber(year, month, day) == MASDAT
//@ loop KalenderDate#1
//@   unroll 12

//@ func DateConverter$1
// every date of the inputs (start, schedules, rotation, windows) goes through this converter: it also serves the
// properties that rest on those dates being the calendar dates of the files
//@   serves C12, C05, C04, C10, C16, C20
//@   opaque extractDate
// parsed numbers (first, second, year field of the text, as extractDate returns them); the century of a two-digit year:
// a year below the configured split belongs to 20xx, a year from the split on to 19xx (the window [1900+cent, 2000+cent))
//@   ghost var f0 int
//@   ghost var f1 int
//@   ghost var yy int
//@   after call extractDate: ghost f0 = res0
//@   after call extractDate: ghost f1 = res1
//@   after call extractDate: ghost yy = res2
//@   ensures[C12] century: (format == DateDEshort || format == DateENshort) ==> YR == ite(yy < cent, yy + 100, yy)
//@   ensures[C12] longyear: (format == DateDElong || format == DateENlong) ==> YR == yy - 1900
//@   ensures[C12] fields: ((format == DateDEshort || format == DateDElong) ==> TG == f0 && MON == f1) && ((format == DateENshort || format == DateENlong) ==> MON == f0 && TG == f1)
//@   ensures masdat: validDate(1900+YR, MON, TG) ==> masDat == daynumber(1900+YR, MON, TG)
//@   ensures doy: validDate(1900+YR, MON, TG) ==> ztDat == doy(1900+YR, MON, TG)
//@ loop DateConverter$1#1
//@   unroll 12

// Lemmas over the two contracts and the calendar spec functions only: together with
// KalenderDate/post:{valid,inverse} and DateConverter$1/post:{masdat,doy} they give the
// statement of C12 (bijection, order, day-of-year, leap rule).
//@ lemma C12-injective
//@   serves C12
//@   var y1 int
//@   var m1 int
//@   var d1 int
//@   var y2 int
//@   var m2 int
//@   var d2 int
//@   assume validDate(y1, m1, d1) && validDate(y2, m2, d2)
//@   assume daynumber(y1, m1, d1) == daynumber(y2, m2, d2)
//@   prove same: y1 == y2 && m1 == m2 && d1 == d2
//@ lemma C12-range
//@   serves C12
//@   var y int
//@   var m int
//@   var d int
//@   assume validDate(y, m, d)
//@   prove lo: 1 <= daynumber(y, m, d)
//@   prove hi: daynumber(y, m, d) <= 72684
//@   prove first: daynumber(1901, 1, 1) == 1
//@   prove last: daynumber(2099, 12, 31) == 72684
//@ lemma C12-successor
//@   serves C12
//@   var y int
//@   var m int
//@   var d int
//@   assume validDate(y, m, d) && !(y == 2099 && m == 12 && d == 31)
//@   prove sameMonth: d < mdays(y, m) ==> daynumber(y, m, d+1) == daynumber(y, m, d) + 1
//@   prove nextMonth: d == mdays(y, m) && m < 12 ==> daynumber(y, m+1, 1) == daynumber(y, m, d) + 1
//@   prove nextYear: d == mdays(y, m) && m == 12 ==> daynumber(y+1, 1, 1) == daynumber(y, m, d) + 1
//@ lemma C12-order
//@   serves C12
//@   var y1 int
//@   var m1 int
//@   var d1 int
//@   var y2 int
//@   var m2 int
//@   var d2 int
//@   assume validDate(y1, m1, d1) && validDate(y2, m2, d2)
//@   assume y1 < y2 || (y1 == y2 && (m1 < m2 || (m1 == m2 && d1 < d2)))
//@   prove lt: daynumber(y1, m1, d1) < daynumber(y2, m2, d2)
//@ lemma C12-yearlength
//@   serves C12
//@   var y int
//@   assume 1901 <= y && y <= 2099
//@   prove len: doy(y, 12, 31) == ite(y % 4 == 0, 366, 365)
//@   prove feb: mdays(y, 2) == ite(y % 4 == 0, 29, 28)

// Rendering: which numbers are handed to the formatter, per format (the formatter itself is text layer).
//@ func KalenderConverter$1
//@   serves C12, C05
//@   ghost var a0 int
//@   ghost var a1 int
//@   ghost var a2 int
//@   at call fmt.Sprintf: ghost a0 = arg1
//@   at call fmt.Sprintf: ghost a1 = arg2
//@   at call fmt.Sprintf: ghost a2 = arg3
//@   requires domain: 1 <= MASDAT && MASDAT <= 72684
//@   ensures date: validDate(year, month, day) && daynumber(year, month, day) == MASDAT
//@   ensures delong: format == DateDElong ==> a0 == day && a1 == month && a2 == year
//@   ensures enlong: format == DateENlong ==> a0 == month && a1 == day && a2 == year
//@   ensures deshort: format == DateDEshort ==> a0 == day && a1 == month && a2 == (year - 1900) % 100
//@   ensures enshort: format == DateENshort ==> a0 == month && a1 == day && a2 == (year - 1900) % 100


// ---------------------------------------------------------------------------
// C20  groundwater level from a time series
// validGW: timestamps strictly ascending and positive; the map's domain is exactly the set of timestamps
// (tsindex is the inverse of the timestamp list, an uninterpreted witness function).
//@ global define validGW(g) = forall(i, 0, len(g.GWTimestamps), forall(j, i+1, len(g.GWTimestamps), g.GWTimestamps[i] < g.GWTimestamps[j])) &&
//@   |  forall(i, 0, len(g.GWTimestamps), g.GWTimestamps[i] > 0 && ufint("tsindex", g.GWTimestamps[i]) == i) &&
//@   |  forallint(d, iff(indom(g.GWTimeSeriesValues, d), 0 <= ufint("tsindex", d) && ufint("tsindex", d) < len(g.GWTimestamps) && g.GWTimestamps[ufint("tsindex", d)] == d))

//@ func GetGroundWaterLevel
// (the level it returns is the table Evatra keeps root uptake above: it also serves C08)
//@   serves C20, C08
//@   define n() = len(g.GWTimestamps)
//@   define ts(i) = g.GWTimestamps[i]
//@   define val(d) = g.GWTimeSeriesValues[d]
//@   define has(d) = indom(g.GWTimeSeriesValues, d)
//@   requires series: validGW(g)
//@   ensures hit: has(date) ==> result0 == val(date) && isnil(result1)
//@   ensures interp: forall(j, 0, n()-1, ts(j) < date && date < ts(j+1) ==>
//@   |   result0 == val(ts(j)) + (val(ts(j+1)) - val(ts(j)))/real(ts(j+1)-ts(j))*real(date - ts(j)) && isnil(result1))
//@   ensures before: n() > 0 && date < ts(0) ==> result0 == val(ts(0)) && isnil(result1)
//@   ensures after: n() > 0 && date > ts(n()-1) ==> result0 == val(ts(n()-1)) && isnil(result1)
//@   ensures error: iff(!isnil(result1), n() == 0 && !has(date))
//@   modifies nothing
//@ loop GetGroundWaterLevel#1
//@   invariant range: 0 <= \i && \i <= n()
//@   invariant none: nextDate == 0 && !has(date)
//@   invariant below: forall(j, 0, \i, ts(j) < date)
//@   invariant prev: prevDate == ite(\i == 0, 0, ts(\i-1))

// "hence between the two values": consequence of GetGroundWaterLevel/post:interp, as a lemma over its formula.
//@ lemma C20-between
//@   serves C20
//@   var a real
//@   var b real
//@   var p int
//@   var d int
//@   var q int
//@   assume p < d && d < q
//@   prove lo: min(a, b) <= a + (b - a)/real(q - p)*real(d - p)
//@   prove hi: a + (b - a)/real(q - p)*real(d - p) <= max(a, b)

// daily update of the level inside the day loop of Run (closure Run$1)
//@ region HermesSession.Run$1#gw from "oldGrW := g.GRW" to "if g.GROUNDWATERFROM == Polygonfile {"
//@   serves C20
//@   define n() = len(g.GWTimestamps)
//@   define ts(i) = g.GWTimestamps[i]
//@   define val(d) = g.GWTimeSeriesValues[d]
//@   define has(d) = indom(g.GWTimeSeriesValues, d)
//@   safety[C20] nofatal
//@   requires mean: g.GW == real(g.GRLO+g.GRHI)/2 && g.AMPL == real(g.GRLO-g.GRHI)/2
//@   requires series: g.GROUNDWATERFROM == GWTimeSeries ==> n() > 0
//@   requires valid: validGW(g)
//@   ensures interval: g.GROUNDWATERFROM == Polygonfile ==> min(real(g.GRHI), real(g.GRLO)) <= g.GRW && g.GRW <= max(real(g.GRHI), real(g.GRLO))
//@   ensures aroundmean: g.GROUNDWATERFROM == Polygonfile ==> abs(g.GRW - real(g.GRLO+g.GRHI)/2) <= abs(real(g.GRLO-g.GRHI)/2)
//@   ensures phase: g.GROUNDWATERFROM == Polygonfile ==> g.GRW == g.GW - g.AMPL*m_sin((g.TAG.Num+real(g.GWPhase))*math.Pi/180)
//@   ensures hit: g.GROUNDWATERFROM == GWTimeSeries && has(ZEIT) ==> g.GRW == val(ZEIT)
//@   ensures before: g.GROUNDWATERFROM == GWTimeSeries && ZEIT < ts(0) ==> g.GRW == val(ts(0))
//@   ensures after: g.GROUNDWATERFROM == GWTimeSeries && ZEIT > ts(n()-1) ==> g.GRW == val(ts(n()-1))
//@   ensures interp: g.GROUNDWATERFROM == GWTimeSeries ==> forall(j, 0, n()-1, ts(j) < ZEIT && ZEIT < ts(j+1) ==>
//@   |   g.GRW == val(ts(j)) + (val(ts(j+1)) - val(ts(j)))/real(ts(j+1)-ts(j))*real(ZEIT - ts(j)))
//@   ensures frame: unchanged(g.GW, g.AMPL, g.GRLO, g.GRHI, g.GWTimestamps, g.GWTimeSeriesValues)

// mean and amplitude from the two levels of the polygon file (Input)
//@ region Input#gwpoly from "g.GRHI = int(ValAsInt(tokens[3]" to "g.AMPL = float64(g.GRLO-g.GRHI) / 2"
//@   serves C20
//@   ensures mean: g.GW == real(g.GRLO+g.GRHI)/2 && g.AMPL == real(g.GRLO-g.GRHI)/2 && g.GRW == g.GW

// ---------------------------------------------------------------------------
// C19  soil temperature envelope
// lo/hi: envelope of the temperatures present before the call (ghost); s: the surface value imposed today.
//@ func Soiltemp
//@   serves C19
// finiteness of the soil temperatures (C06: no NaN/Inf in any state variable) is Soiltemp's division/domain safety
//@   serves C06 as C19
//@   ghost var lo real
//@   ghost var hi real
//@   define s() = g.TSOIL[1][0]
//@   define elo() = min(lo, s())
//@   define ehi() = max(hi, s())
//@   define inenv(v) = elo() <= v && v <= ehi()
//@   requires layers: 2 <= g.N && g.N <= 20
//@   requires steps: g.DT.Num == 1 && g.DZ.Num == 10
//@   requires tag: 0 <= g.TAG.Index && g.TAG.Index < 366
//@   requires bd: forall(i, 0, g.N, 0.5667 <= g.BD[i] && g.BD[i] <= 2.3)
//@   requires humus: forall(i, 0, g.N, 0 <= g.HUMUS[i] && g.HUMUS[i] <= 1)
//@   requires water: forall(i, 0, g.N, 0 <= g.WG[0][i] && g.WG[0][i] <= 1)
//@   requires envelope: lo <= hi && lo <= g.TBASE && g.TBASE <= hi && forall(i, 0, g.N+1, lo <= g.TSOIL[0][i] && g.TSOIL[0][i] <= hi)
//@   ensures profile: forall(i, 0, g.N+1, inenv(g.TSOIL[0][i]))
//@   ensures means: forall(i, 0, g.N+1, inenv(g.TD[i]))
//@   ensures base: g.TSOIL[0][g.N] == g.TBASE
//@   ensures capacity: forall(i, 0, g.N, g.HEATCAP[i] > 0)
//@   ensures diffusion: forall(i, 0, g.N, 0 <= g.HEATCOND[i]/g.HEATCAP[i]*g.DT.Num/24/(g.DZ.Num*g.DZ.Num) && g.HEATCOND[i]/g.HEATCAP[i]*g.DT.Num/24/(g.DZ.Num*g.DZ.Num) <= 0.5)
//@   modifies g.ALBEDO, g.TSOIL, g.HEATCOND, g.HEATCAP, g.TDSUM, g.TD
//@   safety[C19] div index
//@ loop Soiltemp#1
//@   invariant range: 0 <= \i && \i <= g.N
//@   invariant cap: forall(j, 0, \i, g.HEATCAP[j] > 0 && 0 <= g.HEATCOND[j] && g.HEATCOND[j] <= 1200*g.HEATCAP[j])
//@   invariant sums: forall(j, 0, \i, g.TDSUM[j] == 0)
//@ loop Soiltemp#2
//@   invariant range: 0 <= \i && \i <= 24
//@   invariant env: forall(j, 0, g.N+1, inenv(g.TSOIL[0][j]))
//@   invariant bounds: g.TSOIL[1][0] == pre(g.TSOIL[1][0]) && g.TSOIL[1][g.N] == g.TBASE && g.TSOIL[0][g.N] == g.TBASE
//@   invariant sums: forall(j, 0, g.N-1, real(\i)*elo() <= g.TDSUM[j] && g.TDSUM[j] <= real(\i)*ehi())
//@   invariant td0: \i > 0 ==> g.TD[0] == s()
//@ loop Soiltemp#3
//@   invariant range: 1 <= \i && \i <= g.N
//@   invariant new: forall(j, 1, \i, inenv(g.TSOIL[1][j]))
//@   invariant old: forall(j, 0, g.N+2, g.TSOIL[0][j] == pre(g.TSOIL[0][j]))
//@   invariant bounds: g.TSOIL[1][0] == pre(g.TSOIL[1][0]) && g.TSOIL[1][g.N] == pre(g.TSOIL[1][g.N])
//@   invariant sumsdone: forall(j, 0, \i-1, real(std+1)*elo() <= g.TDSUM[j] && g.TDSUM[j] <= real(std+1)*ehi())
//@   invariant sumsrest: forall(j, \i-1, g.N-1, g.TDSUM[j] == pre(g.TDSUM[j]))
//@ loop Soiltemp#4
//@   invariant range: 0 <= \i && \i <= g.N+1
//@   invariant copied: forall(j, 0, \i, g.TSOIL[0][j] == g.TSOIL[1][j])
//@   invariant new: forall(j, 0, g.N+2, g.TSOIL[1][j] == pre(g.TSOIL[1][j]))
//@ loop Soiltemp#5
//@   invariant range: 1 <= \i && \i <= g.N
//@   invariant means: forall(j, 1, \i, inenv(g.TD[j]))
//@   invariant first: g.TD[0] == pre(g.TD[0])
//@ loop Soiltemp#6
//@   invariant range: 1 <= \i && \i <= g.N+1
//@   invariant set: forall(j, 1, \i, g.TSOIL[0][j] == g.TD[j])
//@   invariant rest: forall(j, \i, g.N+2, g.TSOIL[0][j] == pre(g.TSOIL[0][j])) && g.TSOIL[0][0] == pre(g.TSOIL[0][0])
//@   invariant surface: g.TSOIL[1][0] == pre(g.TSOIL[1][0])

// ---------------------------------------------------------------------------
// C01 / C06 / C08  water transport of one sub-step (capacity cascade)
// F(k): flux through the upper boundary of layer k (k = 0: surface), D(k): drain outflow of layer k.
//@ func Water
//@   serves C01, C06, C08
//@   define a0() = g.FLUSS0*wdt
//@   define F(k) = ite(k == 0, g.FLUSS0*wdt, g.Q1[k])
//@   define D(k) = ite(k+1 == g.DRAIDEP, g.QDRAIN, 0.0)
//@   define bal(k) = WATER[1][k] == WATER[0][k] + F(k) - F(k+1) - D(k)
//@   define w0(k) = WATER[0][k] == g.WG[0][k]*g.DZ.Num - g.TP[k]*wdt
//@   define start(k) = ite(subd == 1, old(g.WG[0][k]), old(g.WG[1][k]))
//@   define w0s(k) = WATER[0][k] == start(k)*g.DZ.Num - g.TP[k]*wdt
//@   define clampTP(k) = ite(old(g.TP[k]) > (old(g.WG[0][k])-g.WMIN[k])*g.DZ.Num, ite(old(g.WG[0][k]) < g.WMIN[k], 0.0, (old(g.WG[0][k])-g.WMIN[k])*g.DZ.Num), old(g.TP[k]))
//@   define dry(k) = g.WMIN[k]/3*g.DZ.Num
//@   requires layers: 1 <= g.N && g.N <= 20
//@   requires dz: g.DZ.Num == 10
//@   requires step: 0 < wdt && wdt <= 1
//@   requires outn: 0 <= g.OUTN && g.OUTN <= g.N
//@   requires drain: 0 <= g.DRAIFAK && g.DRAIFAK <= 1
//@   requires[C06] crop: 0 <= g.AKF.Index && g.AKF.Index < 300
//@   requires[C06] soil: forall(k, 0, g.N, 0 < g.WMIN[k] && g.WMIN[k] < g.W[k])
//@   requires[C06] caps: forall(k, 0, 21, g.CAPS[k] >= 0)
//@   ensures[C01] balance: forall(k, 0, g.N, g.WG[1][k]*g.DZ.Num == start(k)*g.DZ.Num - g.TP[k]*wdt + F(k) - F(k+1) - D(k))
//@   ensures[C01] drainsum: g.DRAISUM == old(g.DRAISUM) + g.QDRAIN*10
//@   ensures[C01] bottom: g.SICKER + g.CAPSUM == old(g.SICKER) + old(g.CAPSUM) + g.Q1[g.OUTN]*10 - l.GWAUF*10*wdt
//@   ensures[C01] uptake: forall(k, 0, g.N, g.TP[k] == ite(subd == 1, clampTP(k), old(g.TP[k])))
//@   ensures[C01] surface: unchanged(g.FLUSS0, l.GWAUF)
// the reported actual evaporation is the evaporation the surface flux was reduced by, for EVERY sub-step (step length wdt)
//@   ensures[C01] evapsum: g.PFTRANS == old(g.PFTRANS) + sum(k, 0, g.N, 21, g.TP[k]*wdt) + old(g.ETA)*wdt
//@   ensures[C01,C02] drainonly: g.QDRAIN > 0 ==> g.FLUSS0 > 0
//@   ensures[C01] draininside: g.QDRAIN >= 0 && (g.QDRAIN == 0 || (1 <= g.DRAIDEP && g.DRAIDEP <= g.N))
//@   ensures[C01] startcopy: forall(k, 0, g.N, g.WG[0][k] == start(k))
//@   define lowb(k) = WATER[1][k] >= min(WATER[0][k], dry(k))
//@   ghost var capidx int = 0-1
//@   after stmt "WATER[1][caplayIndex] = WATER[1][caplayIndex] + g.CAPS[": ghost capidx = GWDISTindex
//@   define capped(k) = WATER[1][k] <= g.W[k]*g.DZ.Num || (0 <= capidx && capidx < 21 && WATER[1][k] <= g.W[k]*g.DZ.Num + g.CAPS[capidx]*g.DZ.Num*wdt)
//@   ensures[C06] upper: forall(k, 0, g.N, g.WG[1][k] <= g.W[k] || (0 <= capidx && capidx < 21 && g.WG[1][k] <= g.W[k] + g.CAPS[capidx]*wdt))
//@   ensures[C06] lower: forall(k, 0, g.N, g.WG[1][k]*g.DZ.Num >= min(start(k)*g.DZ.Num - g.TP[k]*wdt, dry(k)))
//@   ensures[C06,C08] uptakecap: subd == 1 ==> forall(k, 0, g.N, g.TP[k] <= max(0.0, (old(g.WG[0][k]) - g.WMIN[k])*g.DZ.Num))
//@   ensures[C08] uptakesign: forall(k, 0, g.N, old(g.TP[k]) >= 0 ==> g.TP[k] >= 0)
//@   safety[C06] div index
//@ loop Water#1
//@   invariant range: 0 <= \i && \i <= g.N
//@   invariant w0: forall(j, 0, \i, w0(j))
//@   invariant tp: forall(j, 0, \i, g.TP[j] == clampTP(j))
//@   invariant rest: forall(j, \i, 21, g.TP[j] == old(g.TP[j]))
//@ loop Water#2
//@   invariant range: 0 <= \i && \i <= g.N
//@   invariant w0: forall(j, 0, \i, w0(j) && g.WG[0][j] == old(g.WG[1][j]))
//@   invariant wg1: g.WG[1] == old(g.WG[1])
//@ loop Water#3
//@   invariant range: 1 <= \i && \i <= g.N+1
//@   invariant q0: g.Q1[0] == a0()
//@   invariant a: a == g.Q1[\i-1] && a >= 0
//@   invariant done: forall(j, 0, \i-1, bal(j))
//@   invariant qd: \i <= g.DRAIDEP ==> g.QDRAIN == 0
//@   invariant[C01] qdin: g.QDRAIN >= 0 && (g.QDRAIN == 0 || (1 <= g.DRAIDEP && g.DRAIDEP < \i))
//@   invariant[C06] low: forall(j, 0, \i-1, lowb(j))
//@   invariant w0s: forall(k, 0, g.N, w0s(k))
//@ loop Water#4
//@   invariant range: k1+1 <= \i && \i <= g.N+1
//@   invariant copied: forall(j, k1, \i-1, WATER[1][j] == WATER[0][j])
//@   invariant zeroq: forall(j, k1, \i, g.Q1[j] == 0)
//@   invariant frameW: forall(j, 0, k1, WATER[1][j] == pre(WATER[1][j]))
//@   invariant frameQ: forall(j, 0, k1+1, g.Q1[j] == pre(g.Q1[j]))
//@   invariant w0s: forall(k, 0, g.N, w0s(k))
//@ loop Water#5
//@   invariant range: 0 <= \i && \i <= g.N
//@   invariant q0: g.Q1[0] == 0
//@   invariant a1: -a1 == F(\i)
//@   invariant[C06] low: forall(j, 0, \i, lowb(j))
//@   invariant done: forall(j, 0, \i, bal(j))
//@   invariant w0s: forall(k, 0, g.N, w0s(k))
//@ loop Water#6
//@   invariant range: k1+1 <= \i && \i <= g.N
//@   invariant copied: forall(j, k1+1, \i, WATER[1][j] == WATER[0][j])
//@   invariant zeroq: forall(j, k1+1, \i+1, g.Q1[j] == 0)
//@   invariant frameW: forall(j, 0, k1+1, WATER[1][j] == pre(WATER[1][j]))
//@   invariant frameQ: forall(j, 0, k1+2, g.Q1[j] == pre(g.Q1[j]))
//@   invariant w0s: forall(k, 0, g.N, w0s(k))
//@ loop Water#7
//@   invariant range: 0 <= \i && \i <= g.N
//@   invariant copied: forall(j, 0, \i, WATER[1][j] == WATER[0][j])
//@   invariant zeroq: forall(j, 1, \i+1, g.Q1[j] == 0)
//@   invariant w0s: forall(k, 0, g.N, w0s(k))
//@ loop Water#8
//@   invariant range: 0 <= \i && \i <= g.N
//@   invariant bal: forall(k, 0, g.N, bal(k))
//@   invariant w0s: forall(k, 0, g.N, w0s(k))
//@   invariant[C06] low: forall(k, 0, g.N, lowb(k))
//@   invariant[C06] up: forall(j, 0, \i, WATER[1][j] <= g.W[j]*g.DZ.Num)
//@ loop Water#9
//@   invariant range: 0 <= \i && \i <= g.N
//@   invariant caplay: 0 <= caplay && caplay <= g.N
//@ loop Water#10
//@   invariant range: caplay <= \i && \i <= g.N+1
//@   invariant shifted: forall(j, caplay, \i, g.Q1[j] == pre(g.Q1[j]) - g.CAPS[GWDISTindex]*g.DZ.Num*wdt)
//@   invariant rest: forall(j, 0, caplay, g.Q1[j] == pre(g.Q1[j])) && forall(j, \i, 22, g.Q1[j] == pre(g.Q1[j]))
//@ loop Water#11
//@   invariant range: 1 <= \i && \i <= g.N+1
//@   invariant conv: forall(j, 0, \i-1, g.WG[1][j]*g.DZ.Num == WATER[1][j])
//@   invariant[C01] et: g.PFTRANS == old(g.PFTRANS) + sum(k, 0, \i-1, 21, g.TP[k]*wdt)
//@   invariant bal: forall(k, 0, g.N, bal(k))
//@   invariant[C06] low: forall(k, 0, g.N, lowb(k))
//@   invariant[C06] up: forall(k, 0, g.N, capped(k))
//@   invariant wg0: g.WG[0] == pre(g.WG[0])
//@   invariant w0s: forall(k, 0, g.N, w0s(k))

// ---------------------------------------------------------------------------
// C01 / C08  evapotranspiration of one day: surface flux, caps, uptake domain
//@ func Evatra
//@   serves C01, C08, C06
// the water stress ratios handed to the crop model (C09) are Evatra's C08 clauses
//@   serves C09 as C08
//@   define tag() = g.TAG.Index
//@   define pet() = (g.VERDUNST - old(g.VERDUNST))
//@   define cropped() = zeit > g.SAAT[g.AKF.Index] && g.INTWICK.Num > 1 && ((g.ERNTE[g.AKF.Index] > 0 && zeit < g.ERNTE[g.AKF.Index]) || (g.ERNTE[g.AKF.Index] == 0 && zeit < g.ERNTE2[g.AKF.Index]))
//@   requires layers: 1 <= g.N && g.N <= 20
//@   requires units: g.DZ.Num == 10 && g.DT.Num == 1 && g.DT.Index == 1
//@   requires day: 0 <= g.TAG.Index && g.TAG.Index < 366 && g.TAG.Num == real(g.TAG.Index) + 1
//@   requires crop: 0 <= g.AKF.Index && g.AKF.Index < 300 && 0 <= g.INTWICK.Index && g.INTWICK.Index < 10
//@   requires roots: 0 <= g.WURZ && g.WURZ <= g.N
//@   requires soil: forall(k, 0, g.N, 0 < g.WMIN[k] && g.WMIN[k] < g.WNOR[k] && g.WNOR[k] <= g.W[k])
//@   requires method: 1 <= g.ETMETH && g.ETMETH <= 5
//@   requires[C08,C06] inputs: g.VERD[tag()] >= 0 && g.ETNULL[tag()] >= 0 && g.FKC >= 0 && g.FKB >= 0 && g.KCOA >= 0
//@   requires[C08,C06] leafarea: g.LAI >= 0
//@   requires[C08,C06] haude: forall(m, 0, 12, g.FKF[m] >= 0 && g.FKU[m] >= 0)
//@   requires[C08,C06] sun: g.SUND[tag()] >= 0
//@   requires[C08,C06] rootdensity: forall(k, 0, 21, g.WUDICH[k] >= 0)
//@   requires[C08,C06] airstate: g.LUMDAY >= 0 && 0 <= g.ETREL && g.ETREL <= 1 && 0 <= g.TRREL && g.TRREL <= 1
//@   define rz() = min(real(g.WURZ), g.GRW)
//@   define wtop() = ite(zeit > g.BEGINN, g.WG[1][0]+g.WG[1][1]+g.WG[1][2], g.WG[0][0]+g.WG[0][1]+g.WG[0][2])
//@   requires[C08,C06] air: g.LUKRIT[g.INTWICK.Index] > 0 || (g.LUKRIT[g.INTWICK.Index] == 0 && g.N >= 3 && g.PORGES[0]+g.PORGES[1]+g.PORGES[2] >= wtop())
//@   after stmt "LURMAX := LUPOR / g.LUKRIT[g.INTWICK.Index]": assert[C08] lurmax: 0 <= LURMAX && LURMAX <= 1 && 0 <= g.LUMDAY && g.LUMDAY <= 4
//@   before stmt "for i := 0; i < g.N; i++ { if float64(i+1) > math.Min(": assert[C08] lured: 0 <= g.LURED && g.LURED <= 1
//@   before stmt "for i := 0; i < g.N; i++ { if float64(i+1) > math.Min(": assert[C08] tramax: TRAMAX >= 0
//@   ensures[C01] flux: g.FLUSS0 == g.REGEN[tag()] - g.ETA
//@   ensures[C01] startcopy: zeit > g.BEGINN ==> forall(i, 0, g.N, g.WG[0][i] == old(g.WG[1][i]))
//@   ensures[C01] keep: g.WG[1] == old(g.WG[1]) && g.REGEN == old(g.REGEN)
//@   ensures[C08] petcap: 0 <= pet() && pet() <= ite(cropped(), 0.65, 0.6)
//@   ensures[C08] evap: 0 <= g.ETA && g.ETA <= pet()
//@   ensures[C08] rootzone: forall(i, 0, g.N, real(i+1) > rz() ==> g.TP[i] == 0)
//@   ensures[C08] uptakesign: forall(i, 0, g.N, g.TP[i] >= 0)
//@   ensures[C08] gwsupply: l.GWAUF >= 0
// C01: the groundwater supply Water books against the lower boundary is the FINAL uptake of the layer that holds the table
// (after the deficit of the layers above has been passed down to it), zero when no rooted layer holds the table
//@   ensures[C01] gwlayer: cropped() ==> forall(i, 0, g.N, real(i+1) == g.GRW && i+1 <= tdiv(floor(rz()), 1) ==> l.GWAUF == g.TP[i])
//@   ensures[C08] etrel: 0 <= g.ETREL && g.ETREL <= 1
//@   ensures[C08] trrel: 0 <= g.TRREL
//@   ensures[C08] lured: cropped() ==> 0 <= g.LURED && g.LURED <= 1
//@   before stmt "for i := 0; i < g.N; i++ { l.NFK[i] =": assert[C08] redev: 0 <= REDEV && REDEV <= 1
// redistribution of the uptake deficit: what a layer passes down to the layers below is never negative and never more than
// the uptake assigned to it (otherwise the total uptake grows and the transpiration ratio exceeds 1)
//@   before stmt "if TREST > 0 {": assert[C08] passdown: 0 <= TREST && TREST <= g.TP[index]
//@   before stmt "if EVMAX > .65 {": assert[C08] split: 0 <= VERDU[tag()] && VERDU[tag()] <= ite(cropped(), 0.65, 0.6) && 0 <= EVMAX && EVMAX <= VERDU[tag()] && TRAMAX == VERDU[tag()] - EVMAX
//@   safety[C06] index
// division/domain safety of the ET formulas (over the reals a division by zero or a log/sqrt outside its domain is where
// a NaN or Inf is born); the physical ranges of the weather and site values are explicit preconditions (assumptions)
//@   safety[C08,C06] div
//@   requires[C08,C06] temps: g.TMIN[tag()] >= 0-90 && g.TMAX[tag()] >= 0-90 && g.TEMP[tag()] >= 0-90
//@   requires[C08,C06] humidity: 0 <= g.RH[tag()] && g.RH[tag()] <= 100
//@   requires[C08,C06] site: 0-500 <= g.ALTI && g.ALTI <= 9000 && g.WINDHI >= 0.5
//@   requires[C08,C06] daylight: g.RAD[tag()] > 0 ==> ufreal("extraterrestrial", g.TAG.Num, g.LAT) > 0
//@ loop Evatra#2
//@   invariant range: 0 <= \i && \i <= g.N
//@ loop Evatra#3
//@   invariant range: 0 <= \i && \i <= g.N
//@ loop Evatra#4
//@   invariant range: 0 <= \i && \i <= g.N
//@ loop Evatra#5
//@   invariant range: 0 <= \i && \i <= g.N
//@ loop Evatra#6
//@   invariant range: 0 <= \i && \i <= g.WURZ
//@   invariant[C08,C06] eff: forall(j, 0, \i, 0 <= WUEFF[j] && WUEFF[j] <= 1 && 0 <= TRRED[j] && TRRED[j] <= 1)
//@   invariant[C08,C06] weff: WEFF >= 0 && forall(j, 0, \i, WEFF >= WUEFF[j]*g.WUDICH[j])
//@ loop Evatra#7
//@   invariant range: 0 <= \i && \i <= g.N
//@   invariant[C08] zero: forall(j, 0, \i, real(j+1) > rz() ==> g.TP[j] == 0)
//@   invariant[C08] sign: forall(j, 0, \i, g.TP[j] >= 0)
//@ loop Evatra#8
//@   invariant range: 1 <= \i && \i <= g.N+1
//@   invariant[C08] zero: forall(j, 0, g.N, real(j+1) > rz() ==> g.TP[j] == 0)
//@   invariant[C08] sign: forall(j, 0, g.N, g.TP[j] >= 0)
//@   invariant[C08] acc: TPAKT >= 0 && l.GWAUF >= 0
//@   invariant[C01] gwdone: forall(j, 0, \i-1, real(j+1) == g.GRW ==> l.GWAUF == g.TP[j])
//@ loop Evatra#9
//@   invariant range: i+1 <= \i && \i <= g.N+1
//@   invariant[C01] frame: forall(j, 0, i, g.TP[j] == pre(g.TP[j])) && l.GWAUF == pre(l.GWAUF)
//@   invariant[C08] zero: forall(j, 0, g.N, real(j+1) > rz() ==> g.TP[j] == 0)
//@   invariant[C08] sign: forall(j, 0, g.N, g.TP[j] >= 0)
//@ loop Evatra#10
//@   invariant range: 0 <= \i && \i <= g.N
//@   invariant[C08] zero: forall(j, 0, \i, g.TP[j] == 0)
//@ loop Evatra#1
//@   invariant range: 0 <= \i && \i <= g.N
//@   invariant copied: forall(j, 0, \i, g.WG[0][j] == old(g.WG[1][j]))
//@   invariant wg1: g.WG[1] == old(g.WG[1])

// Astronomical helper: the day length range is PROVED from the range of asin; the sign of the extraterrestrial
// radiation needs a trigonometric identity outside the solver's reach and stays an ASSUMED postcondition (listed).
//@ func CalculateDayLenght
//@   serves C08, C06, C09
//@   ensures daylength: 0 <= DL && DL <= 24
//@   ensures[C08,C09] effective: 0 <= DLE && DLE <= 24 && 0 <= DLP && DLP <= 24
// every inverse trigonometric function and square root gets an argument inside its domain at every latitude (polar day
// and night included): outside it the float64 functions return NaN, which passes every later cap
//@   safety[C08,C06,C09] domain
//@   ensures-assumed radiation: EXT >= 0 && EXT == ufreal("extraterrestrial", tag, lat)
//@   modifies nothing

// Stomatal resistance from the photosynthesis sub-model (transcendental throughout): only its sign is used, ASSUMED (trusted)
//@ func stomat
//@   serves C08
//@   trusted
//@   ensures resistance: g.RSTOM >= 0
//@   modifies g.RSTOM, g.SUND, g.RADSUM

// Haude/Heger factor reader (text layer): the factors it stores are assumed non-negative (parameter file domain,
// `ensures-assumed`); its frame - it writes the two factor tables and nothing else - is verified on the real body.
//@ func verdun
//@   serves C08
//@   ensures-assumed factors: forall(m, 0, 12, g.FKF[m] >= 0 && g.FKU[m] >= 0)
//@   modifies g.FKF, g.FKU

// Telescoping: the per-layer law of Water/post:balance sums to the profile law of the statement
// (capacity expansion over the 21 declared layer slots; S = storage in cm, U = uptake*wdt, Q = inter-layer fluxes).
//@ lemma C01-telescoping
//@   serves C01
//@   var n int
//@   var dd int
//@   var S1 []real
//@   var S0 []real
//@   var U []real
//@   var Q []real
//@   var a0 real
//@   var drain real
//@   assume 1 <= n && n <= 20
//@   assume drain == 0 || (1 <= dd && dd <= n)
//@   assume forall(k, 0, n, S1[k] == S0[k] - U[k] + ite(k == 0, a0, Q[k]) - Q[k+1] - ite(k+1 == dd, drain, 0.0))
//@   prove profile: sum(k, 0, n, 21, S1[k]) == sum(k, 0, n, 21, S0[k]) - sum(k, 0, n, 21, U[k]) + a0 - Q[n] - drain

// Day law: sub-steps of equal length wdt each obeying the sub-step law add up to the daily law, for any number of
// sub-steps (induction step over the step count m; the base case m = 0 is the identity). flux0/up are the day's
// surface flux and total uptake rate (constant over the day: Water/post:surface, post:uptake), bsum/dsum the accumulated
// bottom and drain fluxes, t the accumulated step length (HermesSession.Run$1#substeps/post:day gives t == 1 at the end).
//@ lemma C01-day-step
//@   serves C01
//@   var stor0 real
//@   var storm real
//@   var storm1 real
//@   var flux0 real
//@   var up real
//@   var wdt real
//@   var t real
//@   var bsum real
//@   var dsum real
//@   var b real
//@   var d real
//@   assume storm == stor0 + flux0*t - up*t - bsum - dsum
//@   assume storm1 == storm + flux0*wdt - up*wdt - b - d
//@   prove step: storm1 == stor0 + flux0*(t+wdt) - up*(t+wdt) - (bsum+b) - (dsum+d)
//@   prove fullday: t + wdt == 1 ==> storm1 == stor0 + flux0 - up - (bsum+b) - (dsum+d)

// ---------------------------------------------------------------------------
// C01  adaptive sub-daily time stepping in the day loop of Run: the sub-steps of a day add up to exactly one day
// (ghost wsum accumulates the step length handed to Water), every call of Water gets a legal step.
//@ region HermesSession.Run$1#substeps from "FSCS := 0.0" to "for SUBD := 1; SUBD <= int(STEPS); SUBD++ {"
//@   return-ensures errorpath: !isnil(result0)
//@   serves C01, C11
//@   opaque Soiltemp PhytoOut Nitro
// C08: the leaf area index stays non-negative through the crop and nitrogen routines of the day (partial use of their contracts)
//@   serves C08
//@   requires[C08] leafarea: g.LAI >= 0
//@   establishes PhytoOut: leafarea
//@   relies PhytoOut: leafarea
//@   relies Nitro: leafarea
//@   ensures[C08] leafarea: g.LAI >= 0
//@   ghost var wsum real
//@   ghost var ncalls int
//@   at call Water: ghost wsum = wsum + arg0
//@   at call Water: ghost ncalls = ncalls + 1
//@   ghost var nsteps int
//@   after stmt "WDT = 1 / math.Ceil(ZSR)": ghost nsteps = ceil(ZSR)
//@   after stmt "WDT = 1 / math.Ceil(ZSR)": assert wdt: WDT*real(nsteps) == 1 && nsteps >= 1
//@   requires layers: 1 <= g.N && g.N <= 20
//@   requires units: g.DZ.Num == 10 && g.DT.Num == 1
//@   requires day: 0 <= g.TAG.Index && g.TAG.Index < 366
//@   requires soil: forall(k, 0, g.N, g.W[k] > 0)
//@   requires outn: 0 <= g.OUTN && g.OUTN <= g.N
//@   requires drain: 0 <= g.DRAIFAK && g.DRAIFAK <= 1
//@   ensures day: wsum == old(wsum) + g.DT.Num
//@   ensures count: ncalls - old(ncalls) >= 1 && real(ncalls - old(ncalls))*WDT == g.DT.Num
// the number of sub-steps is computed in float64 as int(1/(1/ceil(ZSR))): over the reals that is ceil(ZSR) (clause
// count above); that float64 rounding does not lose a step is checked by evaluating the real statements concretely
// for every step count up to 2^20 (exhaustive over that domain)
//@   fp-exhaustive[C01] stepcount: ZSR in 1..1048576 ; given g.DT.Num = 1 ; run "WDT = 1 / math.Ceil(ZSR)" ; run "var STEPS float64" ; run "if WDT < g.DT.Num {" ; check int(STEPS) == int(ZSR)
//@ loop HermesSession.Run$1@"for I := 1; I <= g.N; I++ { index := I - 1 FSC :="
//@   invariant range: 1 <= \i && \i <= g.N+1
//@ loop HermesSession.Run$1@"for I := 1; I <= g.N; I++ { index := I - 1 if g.REGEN[g.TAG.Index]-FSCSUM[index]"
//@   invariant range: 1 <= \i && \i <= g.N+1
//@   invariant zsr: ZSR >= 1
//@ loop HermesSession.Run$1@"for SUBD := 1; SUBD <= int(STEPS); SUBD++ {"
//@   invariant range: 1 <= \i && real(\i) <= STEPS + 1
//@   invariant steps: WDT*real(nsteps) == 1 && nsteps >= 1 && STEPS == real(nsteps) && 0 < WDT && WDT <= 1
//@   invariant sum: wsum == pre(wsum) + real(\i-1)*WDT
//@   invariant calls: ncalls == pre(ncalls) + \i - 1
//@   invariant frame: g.N == pre(g.N) && g.DZ.Num == 10 && g.DT.Num == 1 && g.OUTN == pre(g.OUTN) && g.DRAIFAK == pre(g.DRAIFAK)
//@   invariant[C08] leafarea: g.LAI >= 0
//@   decreases[C11] nsteps - \i + 1

// ---------------------------------------------------------------------------
// C02 / C07  nitrogen transport of one sub-step (convection-dispersion, uptake, leaching)
// conc(z): concentration of layer z (1-based; 0 above the surface and below the profile), defined from the state;
// Fc(z): convective N flux through the lower boundary of layer z (upstream concentration), dr(z): N leaving through the drain,
// J(k): dispersive flux from layer index k to k+1.
//@ func nmove
//@   serves C02, C07, C06
// the crop N content (C09) only grows by a non-negative daily uptake: nmove's C07 clauses are what that needs
//@   serves C09 as C07
//@   define pe(k) = max(0.0, min(old(g.PE[k]), old(g.C1[k]) - 0.5))
//@   define c1a(k) = ite(subd == 1, ite(old(g.C1[k]) - pe(k) < 0, 0.0, old(g.C1[k]) - pe(k)), old(g.C1[k]))
//@   define vol(k) = g.WG[0][k]*g.DZ.Num*100
//@   define conc(z) = max(0.0, (c1a(z-1) + g.DN[z-1]*wdt/2)/vol(z-1))
//@   define C(z) = Carray[z]
//@   define Fc(z) = ite(g.Q1[z] >= 0, C(z)*g.Q1[z], ite(z == 0, 0.0, C(z+1)*g.Q1[z]))
//@   define dr(z) = ite(z == g.DRAIDEP, C(z)*g.QDRAIN, 0.0)
//@   define J(k) = ite(k < 0 || k >= g.N-1, 0.0, l.DB[k]*(C(k+1)-C(k+2))/100)
//@   define cK(k) = (C(k+1)*g.WG[0][k] + l.DISP[k] - l.KONV[k])*g.DZ.Num*100
//@   requires layers: 2 <= g.N && g.N <= 20
//@   requires units: g.DZ.Num == 10
//@   requires step: 0 < wdt && wdt <= 1
//@   requires outn: 1 <= g.OUTN && g.OUTN <= g.N
//@   requires drain: 0 <= g.DRAIDEP && g.DRAIDEP <= 21
//@   requires crop: 0 <= g.AKF.Index && g.AKF.Index < 300
//@   requires water: forall(k, 0, g.N+1, g.WG[0][k] > 0 && g.WG[0][k] <= 1)
//@   requires capacity: forall(k, 0, g.N+1, g.W[k] > 0 && g.W[k] <= 1)
//@   requires surfacedrain: g.QDRAIN == 0 || g.FLUSS0 > 0
// every division of the transport routine has a non-zero denominator under these preconditions (over the reals a division
// by zero is where a NaN is born; found necessary by the encoder cross-check: with W == 0 the real routine returns NaN)
//@   safety[C06] div
//@   ensures[C02.a] concdef: C(0) == 0 && C(g.N+1) == 0 && forall(z, 1, g.N+1, C(z) == conc(z))
//@   ensures[C02] konv: forall(z, 1, g.N+1, l.KONV[z-1]*g.DZ.Num == Fc(z) - Fc(z-1) + dr(z))
//@   ensures[C02] disp: forall(k, 0, g.N, l.DISP[k] == J(k-1) - J(k))
//@   ensures[C02] update: forall(k, 0, g.N, g.C1[k] == max(0.0, max(0.0, cK(k)) + g.DN[k]*wdt/2))
//@   ensures[C02] noloss: forall(k, 0, g.N, g.C1[k] >= c1a(k) + g.DN[k]*wdt + (l.DISP[k] - l.KONV[k])*g.DZ.Num*100)
//@   ensures[C02] leaching: g.OUTN == g.N ==> g.OUTSUM == old(g.OUTSUM) + 100*Fc(g.N)
//@   ensures[C02] drainloss: g.DRAINLOSS == old(g.DRAINLOSS) + 100*g.QDRAIN*C(g.DRAIDEP)
//@   ensures[C02,C07] uptake: g.AUFNASUM == old(g.AUFNASUM) + ite(subd == 1, sum(k, 0, g.N, 21, pe(k)), 0.0)
//@   ensures[C02,C07] uptakeonce: subd != 1 ==> forall(k, 0, g.N, g.PE[k] == old(g.PE[k]))
//@   ensures[C02,C07] taken: subd == 1 ==> forall(k, 0, g.N, g.PE[k] == pe(k))
//@   ensures[C02.b] flag: iff(g.C1NotStable != "", exists(k, 0, g.N, cK(k) < 0 && cK(k) < g.C1stabilityVal))
//@   ensures[C07] nonneg: forall(k, 0, g.N, g.C1[k] >= 0)
//@   ensures[C07] cropn: g.PESUM == old(g.PESUM) + ite(subd == 1, sum(k, 0, g.N, 21, pe(k)) + ite(zeit >= g.SAAT[g.AKF.Index] && zeit <= g.ERNTE2[g.AKF.Index], g.SCHNORR, 0.0), 0.0)
//@   ensures frame: unchanged(g.DN, g.WG, g.QDRAIN, g.FLUSS0) && forall(z, 1, 22, g.Q1[z] == old(g.Q1[z]))
//@ loop nmove#1
//@   invariant range: 0 <= \i && \i <= g.N
//@   invariant top: Carray[0] == 0 && forall(j, \i+1, 22, Carray[j] == 0)
//@   invariant[C02.a] conc: forall(j, 1, \i+1, Carray[j] == conc(j))
//@   invariant[C02] lift: forall(j, 0, \i, Carray[j+1]*vol(j) >= g.C1[j] + g.DN[j]*wdt/2 && Carray[j+1] >= 0)
//@   invariant c1: forall(j, 0, \i, g.C1[j] == c1a(j)) && forall(j, \i, 21, g.C1[j] == old(g.C1[j]))
//@   invariant pe: forall(j, 0, \i, g.PE[j] == ite(subd == 1, pe(j), old(g.PE[j]))) && forall(j, \i, 21, g.PE[j] == old(g.PE[j]))
//@   invariant[C02,C07] sums: g.AUFNASUM == old(g.AUFNASUM) + ite(subd == 1, sum(k, 0, \i, 21, pe(k)), 0.0)
//@   invariant[C07] psum: g.PESUM == old(g.PESUM) + ite(subd == 1, sum(k, 0, \i, 21, pe(k)), 0.0)
//@ loop nmove#2
//@   invariant range: 0 <= \i && \i <= g.N
//@   invariant[C02] disp: forall(k, 0, \i, l.DISP[k] == J(k-1) - J(k))
//@   invariant[C02] db: forall(k, \i, 21, l.DB[k] == pre(l.DB[k]))
//@ loop nmove#3
//@   invariant range: 1 <= \i && \i <= g.N+1
//@   invariant[C02] konv: forall(z, 1, \i, l.KONV[z-1]*g.DZ.Num == Fc(z) - Fc(z-1) + dr(z))
//@ loop nmove#4
//@   invariant range: 0 <= \i && \i <= g.N
//@   invariant mid: forall(k, 0, \i, g.C1[k] == max(0.0, cK(k))) && forall(k, \i, 21, g.C1[k] == pre(g.C1[k]))
//@   invariant[C02.b] flag: iff(g.C1NotStable != "", exists(k, 0, \i, cK(k) < 0 && cK(k) < g.C1stabilityVal))
//@ loop nmove#5
//@   invariant range: 0 <= \i && \i <= g.N
//@   invariant fin: forall(k, 0, \i, g.C1[k] == max(0.0, pre(g.C1[k]) + g.DN[k]*wdt/2)) && forall(k, \i, 21, g.C1[k] == pre(g.C1[k]))

// ---------------------------------------------------------------------------
// C02 / C07  mineralisation of one day: what leaves the organic pools is what the source term and the counters gain
// n2o(z): nitrification N2O loss of layer z (defined by the source term identity).
//@ func mineral
//@   serves C02, C07, C06
//@   safety[C06] div
//@   define num() = tdiv(g.IZM, g.DZ.Index)
//@   define dnaos(z) = old(g.NAOS[z]) - g.NAOS[z]
//@   define dnfos(z) = old(g.NFOS[z]) - g.NFOS[z]
//@   define n2o(z) = dnaos(z) + dnfos(z) + l.DUMS[z] - g.DN[z]
//@   requires depth: g.DZ.Index == 10 && 10 <= g.IZM && g.IZM <= 40
//@   requires soil: g.WMIN[0] < g.WRED && g.WRED <= g.W[0] && forall(k, 0, 4, 0 < g.WMIN[k] && g.WMIN[k] < g.WNOR[k] && g.WNOR[k] <= g.W[k] && g.W[k] <= g.PORGES[k] && g.WNOR[k] < g.PORGES[k])
//@   requires[C07] temp: forall(k, 0, 5, g.TD[k] <= 45)
//@   requires water: forall(k, 0, 4, 0 <= g.WG[0][k] && g.WG[0][k] <= g.PORGES[k]) && forall(k, 0, 5, g.TD[k] > 0-273)
//@   requires[C07] pools: forall(k, 0, 4, g.NAOS[k] >= 0 && g.NFOS[k] >= 0)
//@   requires[C07] fert: g.UMS <= g.DSUMM && g.NH4UMS <= g.NH4Sum
//@   ensures[C02,C07] slow: forall(z, 0, num(), g.NAOS[z] + g.MINAOS[z] == old(g.NAOS[z]) + old(g.MINAOS[z]))
//@   ensures[C02,C07] fast: forall(z, 0, num(), g.NFOS[z] + g.MINFOS[z] == old(g.NFOS[z]) + old(g.MINFOS[z]))
//@   ensures[C02] dissolved: g.UMS == old(g.UMS) + sum(z, 0, num(), 4, l.DUMS[z])
//@   ensures[C02,C07] n2osum: g.N2onitsum == old(g.N2onitsum) + sum(z, 0, num(), 4, n2o(z))
//@   ensures[C02] deeper: forall(z, 1, num(), l.DUMS[z] == 0)
//@   ensures[C07] poolsign: forall(z, 0, num(), g.NAOS[z] >= 0 && g.NFOS[z] >= 0 && g.NAOS[z] <= old(g.NAOS[z]) && g.NFOS[z] <= old(g.NFOS[z]))
//@   ensures[C07] fertcap: g.UMS <= g.DSUMM && g.NH4UMS <= g.NH4Sum && g.UMS >= old(g.UMS)
//@   ensures frame: forall(z, num(), 21, g.NAOS[z] == old(g.NAOS[z]) && g.NFOS[z] == old(g.NFOS[z])) && unchanged(g.DSUMM, g.NH4Sum, g.C1)
//@ loop mineral#1
//@   invariant range: 1 <= \i && \i <= num+1 && num == num()
//@   invariant[C02,C07] slow: forall(z, 0, \i-1, g.NAOS[z] + g.MINAOS[z] == old(g.NAOS[z]) + old(g.MINAOS[z]))
//@   invariant[C02,C07] fast: forall(z, 0, \i-1, g.NFOS[z] + g.MINFOS[z] == old(g.NFOS[z]) + old(g.MINFOS[z]))
//@   invariant rest: forall(z, \i-1, 21, g.NAOS[z] == old(g.NAOS[z]) && g.NFOS[z] == old(g.NFOS[z])) && forall(z, \i-1, 4, g.MINAOS[z] == old(g.MINAOS[z]) && g.MINFOS[z] == old(g.MINFOS[z]))
//@   invariant[C02] dissolved: g.UMS == old(g.UMS) + sum(z, 0, \i-1, 4, l.DUMS[z])
//@   invariant[C02,C07] n2osum: g.N2onitsum == old(g.N2onitsum) + sum(z, 0, \i-1, 4, n2o(z))
//@   invariant[C02] deeper: forall(z, 1, \i-1, l.DUMS[z] == 0)
//@   invariant[C07] poolsign: forall(z, 0, \i-1, g.NAOS[z] >= 0 && g.NFOS[z] >= 0 && g.NAOS[z] <= old(g.NAOS[z]) && g.NFOS[z] <= old(g.NFOS[z]))
//@   invariant[C07] fertcap: g.UMS <= g.DSUMM && g.NH4UMS <= g.NH4Sum && g.UMS >= old(g.UMS)

// ---------------------------------------------------------------------------
// C02 / C07  denitrification: what the top layers lose is what the cumulative counter gains (the clamp never engages)
//@ func Denitr
//@   serves C02, C07, C06
//@   safety[C06] div
//@   requires nitrate: g.C1[0] >= 0 && g.C1[1] >= 0 && g.C1[2] >= 0
//@   requires water: g.WG[1][0] >= 0 && g.WG[1][1] >= 0 && g.WG[1][2] >= 0
//@   requires pores: g.PORGES[0] + g.PORGES[1] + g.PORGES[2] > 0
//@   ensures[C02] balance: old(g.C1[0]) + old(g.C1[1]) + old(g.C1[2]) - (g.C1[0] + g.C1[1] + g.C1[2]) == g.CUMDENIT - old(g.CUMDENIT)
//@   ensures[C02,C07] loss: g.CUMDENIT >= old(g.CUMDENIT)
//@   ensures[C07] nonneg: g.C1[0] >= 0 && g.C1[1] >= 0 && g.C1[2] >= 0
//@   ensures frame: forall(k, 3, 21, g.C1[k] == old(g.C1[k]))
//@   after stmt "layerFraction := []float64{": assert[C02] fractions: layerFraction[0] + layerFraction[1] + layerFraction[2] == 1 && 0 <= layerFraction[0] && 0 <= layerFraction[1] && 0 <= layerFraction[2]
//@   after stmt "michment := ": assert[C02,C07] michaelis: 0 <= michment && michment <= 1000*nitratOb30
//@   after stmt "Ftemp := ": assert[C02,C07] factors: 0 <= Ftheta && Ftheta <= 1 && 0 <= Ftemp && Ftemp <= 1
//@   after stmt "DENIT = DENIT / 1000": assert[C02,C07] bounded: 0 <= DENIT && DENIT <= nitratOb30
//@ loop Denitr#1
//@   unroll 3

//@ func Denitmo
//@   serves C02, C07, C06
//@   safety[C06] div
//@   requires nitrate: forall(k, 0, 9, g.C1[k] >= 0)
//@   requires water: forall(k, 0, 9, g.WG[1][k] >= 0)
//@   requires pores: g.PORGES[0] + g.PORGES[1] + g.PORGES[2] > 0 && g.PORGES[3] + g.PORGES[4] + g.PORGES[5] > 0 && g.PORGES[6] + g.PORGES[7] + g.PORGES[8] > 0
//@   requires day: 0 <= g.TAG.Index && g.TAG.Index < 366
//@   ensures[C02] balance: sum(k, 0, 9, 9, old(g.C1[k])) - sum(k, 0, 9, 9, g.C1[k]) == g.CUMDENIT - old(g.CUMDENIT)
//@   ensures[C02,C07] loss: g.CUMDENIT >= old(g.CUMDENIT)
//@   ensures[C07] nonneg: forall(k, 0, 9, g.C1[k] >= 0)
//@   ensures frame: forall(k, 9, 21, g.C1[k] == old(g.C1[k]))
//@   before stmt "tempOb30 := g.TEMP[g.TAG.Index]": assert[C02] fractions: (nitratOb30 > 0 ==> layerFraction30[0] + layerFraction30[1] + layerFraction30[2] == 1) && (nitratOb60 > 0 ==> layerFraction60[0] + layerFraction60[1] + layerFraction60[2] == 1) && (nitratOb90 > 0 ==> layerFraction90[0] + layerFraction90[1] + layerFraction90[2] == 1)
//@   before stmt "tempOb30 := g.TEMP[g.TAG.Index]": assert[C02] shares: layerFraction30[0]*nitratOb30 == g.C1[0] && layerFraction30[1]*nitratOb30 == g.C1[1] && layerFraction30[2]*nitratOb30 == g.C1[2] && layerFraction60[0]*nitratOb60 == g.C1[3] && layerFraction60[1]*nitratOb60 == g.C1[4] && layerFraction60[2]*nitratOb60 == g.C1[5] && layerFraction90[0]*nitratOb90 == g.C1[6] && layerFraction90[1]*nitratOb90 == g.C1[7] && layerFraction90[2]*nitratOb90 == g.C1[8]
//@   before stmt "calcDenitLayer(&g.C1[0]": assert[C02] noclamp30: Denit1*layerFraction30[0] <= g.C1[0] && Denit1*layerFraction30[1] <= g.C1[1] && Denit1*layerFraction30[2] <= g.C1[2]
//@   before stmt "calcDenitLayer(&g.C1[0]": assert[C02] noclamp60: Denit2*layerFraction60[0] <= g.C1[3] && Denit2*layerFraction60[1] <= g.C1[4] && Denit2*layerFraction60[2] <= g.C1[5]
//@   before stmt "calcDenitLayer(&g.C1[0]": assert[C02] noclamp90: Denit3*layerFraction90[0] <= g.C1[6] && Denit3*layerFraction90[1] <= g.C1[7] && Denit3*layerFraction90[2] <= g.C1[8]
//@   before stmt "calcDenitLayer(&g.C1[0]": assert[C02] totals: Denit1*layerFraction30[0] + Denit1*layerFraction30[1] + Denit1*layerFraction30[2] == Denit1 && Denit2*layerFraction60[0] + Denit2*layerFraction60[1] + Denit2*layerFraction60[2] == Denit2 && Denit3*layerFraction90[0] + Denit3*layerFraction90[1] + Denit3*layerFraction90[2] == Denit3
//@   before stmt "calcDenitLayer(&g.C1[0]": assert[C02] signs: forall(k, 0, 3, layerFraction30[k] >= 0 && layerFraction60[k] >= 0 && layerFraction90[k] >= 0)
//@   after stmt "michment1 := ": assert[C02,C07] m1: 0 <= michment1 && michment1 <= 1000*nitratOb30
//@   after stmt "michment2 := ": assert[C02,C07] m2: 0 <= michment2 && michment2 <= 1000*nitratOb60
//@   after stmt "michment3 := ": assert[C02,C07] m3: 0 <= michment3 && michment3 <= 1000*nitratOb90
//@   after stmt "Ftemp1 := ": assert[C02,C07] f1: 0 <= Ftheta1 && Ftheta1 <= 1 && 0 <= Ftemp1 && Ftemp1 <= 1
//@   after stmt "Ftemp2 := ": assert[C02,C07] f2: 0 <= Ftheta2 && Ftheta2 <= 1 && 0 <= Ftemp2 && Ftemp2 <= 1
//@   after stmt "Ftemp3 := ": assert[C02,C07] f3: 0 <= Ftheta3 && Ftheta3 <= 1 && 0 <= Ftemp3 && Ftemp3 <= 1
//@   before stmt "MaxN2O := 0.63": assert[C02,C07] bounded: 0 <= Denit1 && Denit1 <= max(0.0, nitratOb30) && 0 <= Denit2 && Denit2 <= max(0.0, nitratOb60) && 0 <= Denit3 && Denit3 <= max(0.0, nitratOb90)

// ---------------------------------------------------------------------------
// C02 / C10  day loop of Run: irrigation water and its N enter the top layer exactly when the event is due;
// atmospheric deposition adds DEPOS/365 per day.
//@ region HermesSession.Run$1#irrigation from "if ZEIT == g.ZTBR[g.NBR-1] {" to "if ZEIT == g.ZTBR[g.NBR-1] {"
//@   serves C02, C10
//@   define due() = ZEIT == old(g.ZTBR[g.NBR-1])
//@   define nload() = old(g.BRKZ[g.NBR-1]) * old(g.BREG[g.NBR-1]) * 0.01
//@   requires cursor: 1 <= g.NBR && g.NBR <= 299
//@   requires day: 0 <= g.TAG.Index && g.TAG.Index < 366
//@   ensures[C10] applied: due() ==> g.REGEN[g.TAG.Index] == old(g.REGEN[g.TAG.Index]) + old(g.BREG[g.NBR-1])/10 && g.NBR == old(g.NBR) + 1 && g.EffectiveIRRIG == old(g.BREG[g.NBR-1])/10
//@   ensures[C10] notdue: !due() ==> g.REGEN == old(g.REGEN) && g.NBR == old(g.NBR) && g.C1 == old(g.C1)
//@   ensures[C02] nitrogen: due() ==> g.C1[0] == old(g.C1[0]) + max(0.0, nload()) && forall(k, 1, 21, g.C1[k] == old(g.C1[k]))
//@   ensures[C10] schedule: g.ZTBR == old(g.ZTBR) && g.BREG == old(g.BREG)
//@   ensures[C10] otherdays: forall(d, 0, 368, d != g.TAG.Index ==> g.REGEN[d] == old(g.REGEN[d]))

//@ region HermesSession.Run$1#deposition from "g.C1[0] = g.C1[0] + g.DEPOS/365*g.DT.Num" to "if g.C1[0] < 0 {"
//@   serves C02, C07
//@   requires units: g.DT.Num == 1
//@   ensures[C02] deposited: g.C1[0] == max(0.0, old(g.C1[0]) + g.DEPOS/365) && forall(k, 1, 21, g.C1[k] == old(g.C1[k]))
//@   ensures[C02] noloss: g.C1[0] >= old(g.C1[0]) + g.DEPOS/365
//@   ensures[C07] nonneg: g.C1[0] >= 0

// Telescoping for nitrogen: the per-layer statements of nmove (post:noloss, post:konv, post:disp) sum to the profile law of
// the statement: transport only moves N between layers; what leaves is leaching through the bottom (100*Fc[n]) and the drain
// load; the clamp can only add. J[k] is the dispersive flux into layer k from above (J[0] = 0, J[n] = 0), Fc[z] the convective
// flux through the lower boundary of layer z (Fc[0] = 0: water entering through the surface carries no N).
//@ lemma C02-telescoping
//@   serves C02
//@   var n int
//@   var dd int
//@   var C1n []real
//@   var C1a []real
//@   var DNw []real
//@   var DISP []real
//@   var KONV []real
//@   var Fc []real
//@   var J []real
//@   var drain real
//@   assume 2 <= n && n <= 20
//@   assume J[0] == 0 && J[n] == 0 && Fc[0] == 0
//@   assume forall(k, 0, n, C1n[k] >= C1a[k] + DNw[k] + (DISP[k] - KONV[k])*1000)
//@   assume forall(k, 0, n, DISP[k] == J[k] - J[k+1])
//@   assume forall(z, 1, n+1, KONV[z-1]*10 == Fc[z] - Fc[z-1] + ite(z == dd, drain, 0.0))
//@   prove profile: sum(k, 0, n, 21, C1n[k]) >= sum(k, 0, n, 21, C1a[k]) + sum(k, 0, n, 21, DNw[k]) - 100*Fc[n] - 100*ite(1 <= dd && dd <= n, drain, 0.0)

// ---------------------------------------------------------------------------
// C18  crop parameter override: representation invariant (total temperature sum), exact base parameters and stage sums,
// all-or-nothing on an invalid or foreign override, frame.
//@ global define validCrop(g, l) = 0 <= l.NRENTW && l.NRENTW <= 10 && 0 <= g.NRKOM && g.NRKOM <= 5 && l.tendsum == sum(i, 0, l.NRENTW, 10, g.TSUM[i])
//@ global define perennialContinued(g) = g.DAUERKULT && g.AKF.Num > 2 && g.FRUCHT[g.AKF.Index] == g.FRUCHT[g.AKF.Index-1]

//@ func CropOverwrite.OverwriteCropParameters
//@   serves C18
//@   ghost var basename string
//@   ghost var valid bool = true
//@   after call filepath.Base: ghost basename = res0
//@   after call cropOW.isValidCropOverwrite: ghost valid = res0
//@   define B() = cropOW.BaseFloatParameters
//@   define D() = cropOW.DevelopmentStageParameters
//@   define applied() = cropOW.CropFile == basename && valid
//@   define basepar(name, now, before) = ite(indom(B(), name), now == B()[name], now == before)
//@   requires crop: validCrop(g, l)
//@   requires rotation: 1 <= g.AKF.Index && g.AKF.Index < 300
//@   ensures sums: validCrop(g, l)
//@   ensures rejected: !applied() ==> unchanged(g.MAXAMAX, g.MINTMP, g.WUMAXPF, g.VELOC, g.YIFAK, g.GEHOB, g.WUGEH, g.TSUM, g.BAS, g.VSCHWELL, g.DAYL, g.DLBAS, g.DRYSWELL, g.LUKRIT, g.LAIFKT, g.WGMAX, l.kc, g.PRO, g.DEAD, l.tendsum)
//@   ensures base: applied() ==> basepar("MAXAMAX", g.MAXAMAX, old(g.MAXAMAX)) && basepar("MINTMP", g.MINTMP, old(g.MINTMP)) && basepar("WUMAXPF", g.WUMAXPF, old(g.WUMAXPF)) && basepar("YIFAK", g.YIFAK, old(g.YIFAK))
//@   ensures veloc: applied() ==> ite(indom(B(), "VELOC"), g.VELOC == B()["VELOC"]/200, g.VELOC == old(g.VELOC))
//@   ensures initn: applied() ==> ite(indom(B(), "INITCONCNBIOM") && !perennialContinued(g), g.GEHOB == B()["INITCONCNBIOM"]/100, g.GEHOB == old(g.GEHOB)) && ite(indom(B(), "INITCONCNROOT") && !perennialContinued(g), g.WUGEH == B()["INITCONCNROOT"]/100, g.WUGEH == old(g.WUGEH))
//@   ensures tsum: applied() ==> forall(i, 0, 10, ite(indom2(D(), "TSUM", i+1), g.TSUM[i] == D()["TSUM"][i+1], g.TSUM[i] == old(g.TSUM[i])))
//@   modifies g.MAXAMAX, g.MINTMP, g.WUMAXPF, g.VELOC, g.YIFAK, g.GEHOB, g.WUGEH, g.TSUM, g.BAS, g.VSCHWELL, g.DAYL, g.DLBAS, g.DRYSWELL, g.LUKRIT, g.LAIFKT, g.WGMAX, l.kc, g.PRO, g.DEAD, l.tendsum
//@ loop CropOverwrite.OverwriteCropParameters@"for key, value := range cropOW.BaseFloatParameters {"
//@   invariant sub: (visited("MAXAMAX") ==> indom(B(), "MAXAMAX")) && (visited("MINTMP") ==> indom(B(), "MINTMP")) && (visited("WUMAXPF") ==> indom(B(), "WUMAXPF")) && (visited("YIFAK") ==> indom(B(), "YIFAK")) && (visited("VELOC") ==> indom(B(), "VELOC")) && (visited("INITCONCNBIOM") ==> indom(B(), "INITCONCNBIOM")) && (visited("INITCONCNROOT") ==> indom(B(), "INITCONCNROOT"))
//@   invariant base: ite(visited("MAXAMAX"), g.MAXAMAX == B()["MAXAMAX"], g.MAXAMAX == old(g.MAXAMAX)) && ite(visited("MINTMP"), g.MINTMP == B()["MINTMP"], g.MINTMP == old(g.MINTMP)) && ite(visited("WUMAXPF"), g.WUMAXPF == B()["WUMAXPF"], g.WUMAXPF == old(g.WUMAXPF)) && ite(visited("YIFAK"), g.YIFAK == B()["YIFAK"], g.YIFAK == old(g.YIFAK))
//@   invariant veloc: ite(visited("VELOC"), g.VELOC == B()["VELOC"]/200, g.VELOC == old(g.VELOC))
//@   invariant initn: ite(visited("INITCONCNBIOM") && !perennialContinued(g), g.GEHOB == B()["INITCONCNBIOM"]/100, g.GEHOB == old(g.GEHOB)) && ite(visited("INITCONCNROOT") && !perennialContinued(g), g.WUGEH == B()["INITCONCNROOT"]/100, g.WUGEH == old(g.WUGEH))
//@ loop CropOverwrite.OverwriteCropParameters@"for key, stages := range cropOW.DevelopmentStageParameters {"
//@   invariant sub: visited("TSUM") ==> indom(D(), "TSUM")
//@   invariant tsum: ite(visited("TSUM"), forall(i, 0, 10, ite(indom2(D(), "TSUM", i+1), g.TSUM[i] == D()["TSUM"][i+1], g.TSUM[i] == old(g.TSUM[i]))), g.TSUM == old(g.TSUM))
//@ loop CropOverwrite.OverwriteCropParameters#3
//@   invariant sub: forallint(s, visited(s) ==> indom2(D(), "TSUM", s))
//@   invariant tsum: forall(i, 0, 10, ite(visited(i+1), g.TSUM[i] == D()["TSUM"][i+1], g.TSUM[i] == old(g.TSUM[i])))
//@ loop CropOverwrite.OverwriteCropParameters@"for i := 0; i < l.NRENTW; i++ { l.tendsum = l.tendsum + g.TSUM[i]"
//@   invariant range: 0 <= \i && \i <= l.NRENTW
//@   invariant partial: l.tendsum == sum(j, 0, \i, 10, g.TSUM[j])

//@ func CropOverwrite.isValidCropOverwrite
//@   serves C18
//@   define B() = cropOW.BaseFloatParameters
//@   define D() = cropOW.DevelopmentStageParameters
//@   define inrange(name, lo, hi) = indom(B(), name) ==> lo <= B()[name] && B()[name] <= hi
//@   requires domain: 0 <= numPartitions && numPartitions <= 5 && 0 <= numStages && numStages <= 10
//@   ensures nofile: cropOW.CropFile == "" ==> !result0
//@   ensures base: result0 ==> inrange("MAXAMAX", 0, 100) && inrange("MINTMP", 0-30, 50) && inrange("WUMAXPF", 0, 20) && inrange("VELOC", 0, 1) && inrange("YIFAK", 0, 1) && inrange("INITCONCNBIOM", 0, 100) && inrange("INITCONCNROOT", 0, 100)
//@   ensures strict: result0 ==> (indom(B(), "MAXAMAX") ==> B()["MAXAMAX"] > 0) && (indom(B(), "VELOC") ==> B()["VELOC"] > 0) && (indom(B(), "WUMAXPF") ==> B()["WUMAXPF"] > 0)
//@   ensures stages: result0 ==> forallkey(k, D(), forallint(s, indom2(D(), k, s) ==> 1 <= s && s <= numStages))
//@   ensures tsum: result0 ==> forallint(s, indom2(D(), "TSUM", s) ==> 0 <= D()["TSUM"][s] && D()["TSUM"][s] <= 10000)
//@   ensures organs: result0 ==> forallkey(k, cropOW.PartitioningParameters, forallkey2(p, cropOW.PartitioningParameters, k, 1 <= p.Stage && p.Stage <= numStages && 1 <= p.Part && p.Part <= numPartitions))
//@   modifies nothing
//@ loop CropOverwrite.isValidCropOverwrite#1
//@   invariant base: (visited("MAXAMAX") ==> 0 < B()["MAXAMAX"] && B()["MAXAMAX"] <= 100) && (visited("MINTMP") ==> 0-30 < B()["MINTMP"] && B()["MINTMP"] < 50) && (visited("WUMAXPF") ==> 0 < B()["WUMAXPF"] && B()["WUMAXPF"] <= 20) && (visited("VELOC") ==> 0 < B()["VELOC"] && B()["VELOC"] <= 1) && (visited("YIFAK") ==> 0 <= B()["YIFAK"] && B()["YIFAK"] <= 1) && (visited("INITCONCNBIOM") ==> 0 <= B()["INITCONCNBIOM"] && B()["INITCONCNBIOM"] <= 100) && (visited("INITCONCNROOT") ==> 0 <= B()["INITCONCNROOT"] && B()["INITCONCNROOT"] <= 100)
//@ loop CropOverwrite.isValidCropOverwrite#2
//@   invariant stages: forallkey(k, D(), visited(k) ==> forallint(s, indom2(D(), k, s) ==> 1 <= s && s <= numStages))
//@   invariant tsum: visited("TSUM") ==> forallint(s, indom2(D(), "TSUM", s) ==> 0 <= D()["TSUM"][s] && D()["TSUM"][s] <= 10000)
//@ loop CropOverwrite.isValidCropOverwrite#3
//@   invariant stages: forallint(s, visited(s) ==> 1 <= s && s <= numStages)
//@ loop CropOverwrite.isValidCropOverwrite#4
//@   invariant tsum: forallint(s, visited(s) ==> 0 <= stages[s] && stages[s] <= 10000)
//@ loop CropOverwrite.isValidCropOverwrite#14
//@   invariant organs: forallkey(k, cropOW.PartitioningParameters, visited(k) ==> forallkey2(p, cropOW.PartitioningParameters, k, 1 <= p.Stage && p.Stage <= numStages && 1 <= p.Part && p.Part <= numPartitions))
//@ loop CropOverwrite.isValidCropOverwrite#15
//@   invariant organs: forallkey(p, parts, visited(p) ==> 1 <= p.Stage && p.Stage <= numStages && 1 <= p.Part && p.Part <= numPartitions)

// both crop parameter readers establish the representation invariant that the override preserves
//@ region ReadCropParamYml#stages from "l.tendsum = 0" to "for i := 0; i < l.NRENTW; i++ {"
//@   serves C18
//@   requires stages: 0 <= l.NRENTW && l.NRENTW <= 10 && 0 <= g.NRKOM && g.NRKOM <= 5
//@   ensures sums: validCrop(g, l)
//@ loop ReadCropParamYml@"for i := 0; i < l.NRENTW; i++ { l.ENDBBCH[i] ="
//@   invariant range: 0 <= \i && \i <= l.NRENTW
//@   invariant partial: l.tendsum == sum(j, 0, \i, 10, g.TSUM[j])
//@   invariant frame: l.NRENTW == pre(l.NRENTW) && g.NRKOM == pre(g.NRKOM)

//@ region ReadCropParamClassic#stages from "l.tendsum = 0" to "for i := 0; i < l.NRENTW; i++ {"
//@   serves C18
//@   requires stages: 0 <= l.NRENTW && l.NRENTW <= 10 && 0 <= g.NRKOM && g.NRKOM <= 5
//@   ensures sums: validCrop(g, l)
//@ loop ReadCropParamClassic@"for i := 0; i < l.NRENTW; i++ { developmentStageHeadline"
//@   invariant range: 0 <= \i && \i <= l.NRENTW
//@   invariant partial: l.tendsum == sum(j, 0, \i, 10, g.TSUM[j])
//@   invariant frame: l.NRENTW == pre(l.NRENTW) && g.NRKOM == pre(g.NRKOM)

// ---------------------------------------------------------------------------
// C15  soil hydraulic parameters
// calcWRed takes wilting point and field capacity in PERCENT and stores the threshold as a fraction strictly between them.
//@ func calcWRed
//@   serves C15, C07
//@   requires ordered: wiltingPoint < fieldCapacity
//@   ensures between: wiltingPoint < g.WRED*100 && g.WRED*100 < fieldCapacity
//@   modifies g.WRED

// pedotransfer functions on the property's domain: at least 5 % of each fraction, at most 85 % sand, 0-6 % organic carbon
//@ global define texdomain(c, clay, silt) = 0 <= c && c <= 6 && 5 <= clay && 5 <= silt && 5 <= 100 - clay - silt && 100 - clay - silt <= 85
//@ func PTF1
//@   serves C15
//@   requires domain: texdomain(CGEHALT, TON, SLUF)
//@   ensures ordered: 0 < wmin && wmin < fc && fc < 1
//@ func PTF2
//@   serves C15
//@   requires domain: texdomain(CGEHALT, TON, SLUF)
//@   ensures ordered: 0 < wmin && wmin < fc && fc < 1
//@ func PTF3
//@   serves C15
//@   requires domain: texdomain(CGEHALT, TON, SLUF)
//@   ensures ordered: 0 < wmin && wmin < fc && fc < 1

// below the groundwater table field capacity is pore volume; the layer holding the table is the stated blend
//@ func setFieldCapacityWithGW
//@   serves C15, C06
//@   define top() = floor(g.GRW + 1)
//@   define frac() = g.GRW + 1 - real(floor(g.GRW + 1))
//@   requires layers: 1 <= g.N && g.N <= 20
//@   requires level: g.GRW >= 0
//@   ensures below: forall(l, 1, g.N+1, l > top() ==> g.W[l-1] == g.PORGES[l-1])
//@   ensures table: forall(l, 1, g.N+1, l == top() ==> g.W[l-1] == (1-frac())*g.PORGES[l-1] + old(g.W[l-1])*frac())
//@   ensures above: forall(l, 1, g.N+1, l < top() ==> g.W[l-1] == old(g.W[l-1]))
//@   ensures rest: forall(k, g.N, 21, g.W[k] == old(g.W[k]))
//@   ensures ordered: forall(k, 0, g.N, old(g.WMIN[k]) < old(g.W[k]) && old(g.W[k]) <= old(g.PORGES[k]) ==> g.WMIN[k] < g.W[k] && g.W[k] <= g.PORGES[k])
//@   modifies g.W
//@   safety[C15] index
//@ loop setFieldCapacityWithGW#1
//@   invariant range: top() <= \i && (\i <= g.N+1 || \i == top())
//@   invariant below: forall(j, 1, \i, j > top() ==> g.W[j-1] == g.PORGES[j-1])
//@   invariant table: forall(j, 1, \i, j == top() ==> g.W[j-1] == (1-frac())*g.PORGES[j-1] + old(g.W[j-1])*frac())
//@   invariant rest: forall(j, 1, 22, (j < top() || j >= \i) ==> g.W[j-1] == old(g.W[j-1]))
//@ func PTF4
//@   serves C15
//@   requires domain: texdomain(CGEHALT, TON, 100 - TON - SSAND) && 5 <= SSAND && SSAND <= 85
//@   ensures positive: 0 < wmin
//@   ensures below1: fc < 1
//@   ensures-assumed ordered: wmin < fc

// moving groundwater table in the day loop of Run: parameters are restored from the backup taken at input time and then
// saturated below the table, so they are a function of (backup, level) only; water content below the table is field capacity
//@ region HermesSession.Run$1#gwchange from "if g.GRW != oldGrW" to "if g.GRW != oldGrW"
//@   serves C15, C06
//@   opaque Hydro
//@   define top() = floor(g.GRW + 1)
//@   define frac() = g.GRW + 1 - real(floor(g.GRW + 1))
//@   define restored() = g.GRW != oldGrW && !(g.PTF == 0 && g.CAPPAR == 0)
//@   requires layers: 1 <= g.N && g.N <= 20
//@   requires level: g.GRW >= 0
//@   requires backup: forall(z, 0, g.N, 0 < g.WMIN_Backup[z] && g.WMIN_Backup[z] < g.W_Backup[z] && g.W_Backup[z] <= g.PORGES_Backup[z] && g.PORGES_Backup[z] < 1)
//@   ensures[C15] same: restored() ==> forall(z, 0, g.N, g.WMIN[z] == g.WMIN_Backup[z] && g.PORGES[z] == g.PORGES_Backup[z] && g.WNOR[z] == g.WNOR_Backup[z])
//@   ensures[C15] function: restored() ==> forall(z, 0, g.N, g.W[z] == ite(z+1 > top(), g.PORGES_Backup[z], ite(z+1 == top(), (1-frac())*g.PORGES_Backup[z] + g.W_Backup[z]*frac(), g.W_Backup[z])))
//@   ensures[C15] ordered: restored() ==> forall(z, 0, g.N, 0 < g.WMIN[z] && g.WMIN[z] < g.W[z] && g.W[z] <= g.PORGES[z] && g.PORGES[z] < 1)
//@   ensures[C15] threshold: restored() ==> g.WMIN[0] < g.WRED && g.WRED < g.W[0]
//@   ensures[C15,C06] saturated: g.GRW != oldGrW ==> forall(z, 0, g.N, real(z+1) >= g.GRW ==> g.WG[1][z] == g.W[z])
//@   ensures[C15] unchanged: g.GRW == oldGrW ==> unchanged(g.W, g.WMIN, g.PORGES, g.WNOR, g.WRED, g.WG)
// C01: a change of the level only imposes the water content AT AND BELOW the table (water entering/leaving the profile with
// the table is outside the daily balance, as the property says); the water content of the layers ABOVE the table is not
// touched - a top-up there would create water that no flux term accounts for
//@   serves C01
//@   ensures[C01,C06,C15] abovetable: forall(z, 0, 21, real(z+1) < g.GRW ==> g.WG[1][z] == old(g.WG[1][z])) && g.WG[0] == old(g.WG[0])
//@ loop HermesSession.Run$1@"for idxLayer := 0; idxLayer < g.N; idxLayer++ {"
//@   invariant range: 0 <= \i && \i <= g.N
//@   invariant restored: forall(z, 0, \i, g.W[z] == g.W_Backup[z] && g.WMIN[z] == g.WMIN_Backup[z] && g.PORGES[z] == g.PORGES_Backup[z] && g.WNOR[z] == g.WNOR_Backup[z])
//@ loop HermesSession.Run$1@"for z := 0; z < g.N; z++ { zNum := float64(z) + 1 if zNum >= g.GRW {"
//@   invariant range: 0 <= \i && \i <= g.N
//@   invariant sat: forall(z, 0, \i, real(z+1) >= g.GRW ==> g.WG[1][z] == g.W[z])
//@   invariant[C01,C06,C15] above: forall(z, 0, 21, (real(z+1) < g.GRW || z >= \i) ==> g.WG[1][z] == old(g.WG[1][z])) && g.WG[0] == old(g.WG[0])

// assignment of the layer parameters in Input, per route (explicit values of the soil file; pedotransfer functions)
//@ region Input#soilparams from "for L := 1; L <= g.AZHO; L++ { lindex := L - 1 AD, err := Hydro(" to "for L := 1; L <= g.AZHO; L++ { lindex := L - 1 AD, err := Hydro("
//@   serves C15
//@   opaque Hydro
//@   requires horizons: 1 <= g.AZHO && g.AZHO <= 10 && 1 <= g.N && g.N <= 20
//@   requires explicit: forall(h, 0, 10, g.FKA[h] > 0 ==> 0 < g.WP[h] && g.WP[h] < g.FKA[h] && g.FKA[h] <= g.GPV[h] && g.GPV[h] < 100)
//@   requires texture: g.PTF != 0 ==> forall(h, 0, 10, texdomain(g.CGEHALT[h], l.TON[h], l.SLUF[h]) && l.SSAND[h] == 100 - l.TON[h] - l.SLUF[h])
//@   requires ptf: 0 <= g.PTF && g.PTF <= 4
//@   after stmt "g.WNOR[LTindex] = g.FKA[lindex] / 100": assert explicitOrdered: 0 < g.WMIN[LTindex] && g.WMIN[LTindex] < g.W[LTindex] && g.W[LTindex] <= g.PORGES[LTindex] && g.PORGES[LTindex] < 1 && g.WNOR[LTindex] == g.W[LTindex]
//@   after stmt "calcWRed(g.WP[lindex], g.FKA[lindex], g)": assert explicitThreshold: g.WMIN[LTindex] < g.WRED && g.WRED < g.W[LTindex]
//@   after stmt "g.WNOR[LTindex] = g.W[LTindex]": assert ptfOrdered: 0 < g.WMIN[LTindex] && g.WMIN[LTindex] < g.W[LTindex] && g.W[LTindex] < 1 && g.WNOR[LTindex] == g.W[LTindex]
//@   after stmt "calcWRed(g.WMIN[LTindex]*100, g.W[LTindex]*100, g)": assert ptfThreshold: g.WMIN[LTindex] < g.WRED && g.WRED < g.W[LTindex]
//@ loop Input@"for L := 1; L <= g.AZHO; L++ { lindex := L - 1 AD, err := Hydro("
//@   invariant range: 1 <= \i && \i <= g.AZHO+1
//@   invariant frame: g.AZHO == pre(g.AZHO) && g.N == pre(g.N) && g.PTF == pre(g.PTF) && g.FKA == pre(g.FKA) && g.WP == pre(g.WP) && g.GPV == pre(g.GPV) && g.CGEHALT == pre(g.CGEHALT) && l.TON == pre(l.TON) && l.SLUF == pre(l.SLUF) && l.SSAND == pre(l.SSAND)
//@ loop Input@"for LT := g.UKT[L-1] + 1; LT <= g.UKT[L]; LT++ { LTindex := LT - 1 g.AD[LTindex] = AD"
//@   invariant frame: g.AZHO == pre(g.AZHO) && g.N == pre(g.N) && g.PTF == pre(g.PTF) && g.FKA == pre(g.FKA) && g.WP == pre(g.WP) && g.GPV == pre(g.GPV) && g.CGEHALT == pre(g.CGEHALT) && l.TON == pre(l.TON) && l.SLUF == pre(l.SLUF) && l.SSAND == pre(l.SSAND)

// texture-table route: what Hydro stores for a horizon is the table entry of this call plus the organic-matter bonus
// (in particular it does not depend on what an earlier call left in the arrays)
//@ func Hydro
//@   serves C15
//@   ghost var tabfk real
//@   ghost var tablim real
//@   ghost var tabpor real
//@   after stmt "g.PRGES[horizonIndex] = ValAsFloat(wa[": ghost tabpor = g.PRGES[horizonIndex]
//@   after stmt "g.PRGES[horizonIndex] = ValAsFloat(wa[": ghost tabfk = local.FK[horizonIndex]
//@   after stmt "g.PRGES[horizonIndex] = ValAsFloat(wa[": ghost tablim = g.LIM[horizonIndex]
//@   after stmt "g.PRGES[horizonIndex] = ValAsFloat(wa[": assume tableUsableWater: g.LIM[horizonIndex] < local.FK[horizonIndex]
// the table itself is ordered (field capacity not above pore volume, trusted base item 7); what Hydro ADDS for organic
// matter must keep it so: the bonus on field capacity (KRR) without a matching bonus on pore volume (KRG) does not -
// genuine defect F30 (known finding, not repaired: which of the two should give way is a modelling decision)
//@   after stmt "g.PRGES[horizonIndex] = ValAsFloat(wa[": assume tableOrdered: local.FK[horizonIndex] <= g.PRGES[horizonIndex]
//@   ensures[C15] ordered: isnil(err) ==> g.FELDW[horizon-1] <= g.PRGES[horizon-1]
// the row of the texture table: three columns each for field capacity (from column 4), usable water (from 13) and pore
// volume (from 22), one per bulk-density group (classes 1-2, 3, 4-5); the wilting point is field capacity minus the usable
// water OF THE SAME GROUP (a neighbouring column gives a wilting point that can be negative for the dense sandy textures)
//@   serves C19
//@   define grp() = ite(g.LD[horizonIndex] <= 2, 0, ite(g.LD[horizonIndex] == 3, 1, 2))
//@   define col(k) = ufreal("number", wa[k+3*grp() : k+2+3*grp()])
//@   before stmt "g.WUMAX[horizonIndex] = ValAsFloat(wa[31:33]": assert[C15,C19] columns: local.FK[horizonIndex] == col(4)/100 && g.LIM[horizonIndex] == local.FK[horizonIndex] - col(13)/100 && g.PRGES[horizonIndex] == col(22)/100
//@   requires horizon: 1 <= horizon && horizon <= 10
//@   requires density: 1 <= g.LD[horizon-1] && g.LD[horizon-1] <= 5
//@   ensures table: isnil(err) ==> g.PRGES[horizon-1] == tabpor + KRG/100 && g.NORMFK[horizon-1] == tabfk && g.FELDW[horizon-1] == tabfk + KRR/100 && g.LIM[horizon-1] == tablim
//@   ensures bonus: isnil(err) ==> 0 <= KRG && KRG <= 14 && 0-2 <= KRR && KRR <= 13.5

// ---------------------------------------------------------------------------
// C10  schedules: after reading, events sharing a day are moved to the first free day at or after their date, which makes
// the schedule strictly ascending (the cursor of the day loop relies on that: an event that is not later than its
// predecessor would block every later event).
//@ region Input#fertshift from "for i := 1; i < NDu; i++ { index := i - 1 if g.ZTDG[index+1] <= g.ZTDG[index] {" to "for i := 1; i < NDu; i++ { index := i - 1 if g.ZTDG[index+1] <= g.ZTDG[index] {"
//@   serves C10
//@   requires count: 1 <= NDu && NDu <= 299
//@   requires ascending: forall(k, 0, NDu-1, g.ZTDG[k] <= g.ZTDG[k+1])
//@   ensures strict: forall(k, 0, NDu-1, g.ZTDG[k] < g.ZTDG[k+1])
//@   ensures firstfree: forall(k, 1, NDu, g.ZTDG[k] == max(old(g.ZTDG[k]), g.ZTDG[k-1]+1))
//@   ensures frame: g.ZTDG[0] == old(g.ZTDG[0]) && forall(k, NDu, 300, g.ZTDG[k] == old(g.ZTDG[k]))
//@ loop Input@"for i := 1; i < NDu; i++ { index := i - 1 if g.ZTDG[index+1] <= g.ZTDG[index] {"
//@   invariant range: 1 <= \i && \i <= NDu
//@   invariant strict: forall(k, 0, \i-1, g.ZTDG[k] < g.ZTDG[k+1])
//@   invariant firstfree: forall(k, 1, \i, g.ZTDG[k] == max(old(g.ZTDG[k]), g.ZTDG[k-1]+1))
//@   invariant rest: g.ZTDG[0] == old(g.ZTDG[0]) && forall(k, \i, 300, g.ZTDG[k] == old(g.ZTDG[k]))

//@ region Input#tillshift from "for i := 1; i < NRTIL; i++ { if g.EINTE[i+1] <= g.EINTE[i] {" to "for i := 1; i < NRTIL; i++ { if g.EINTE[i+1] <= g.EINTE[i] {"
//@   serves C10
//@   requires count: 0 <= NRTIL && NRTIL <= 199
//@   requires ascending: forall(k, 1, NRTIL, g.EINTE[k] <= g.EINTE[k+1])
//@   ensures strict: forall(k, 1, NRTIL, g.EINTE[k] < g.EINTE[k+1])
//@   ensures firstfree: forall(k, 2, NRTIL+1, g.EINTE[k] == max(old(g.EINTE[k]), g.EINTE[k-1]+1))
//@   ensures frame: g.EINTE[0] == old(g.EINTE[0]) && g.EINTE[1] == old(g.EINTE[1]) && forall(k, NRTIL+1, 201, g.EINTE[k] == old(g.EINTE[k]))
//@ loop Input@"for i := 1; i < NRTIL; i++ { if g.EINTE[i+1] <= g.EINTE[i] {"
//@   invariant range: 1 <= \i && \i <= max(NRTIL, 1)
//@   invariant strict: forall(k, 1, \i, g.EINTE[k] < g.EINTE[k+1])
//@   invariant firstfree: forall(k, 2, \i+1, g.EINTE[k] == max(old(g.EINTE[k]), g.EINTE[k-1]+1))
//@   invariant rest: g.EINTE[0] == old(g.EINTE[0]) && g.EINTE[1] == old(g.EINTE[1]) && forall(k, \i+1, 201, g.EINTE[k] == old(g.EINTE[k]))

// fertilisation of the day (manual schedule): applied iff due (the day after the scheduled date, first sub-step), in the
// amounts of the schedule entry under the cursor, cursor advanced by one; otherwise nothing changes.
//@ region Nitro#fert from "if !g.AUTOFERT {" to "if !g.AUTOFERT {"
//@   return-ensures errorpath: !isnil(result1)
//@   serves C10, C07, C16
//@   define cur() = old(g.NDG.Index)
//@   define due() = !g.AUTOFERT && zeit == old(g.ZTDG[g.NDG.Index]) + 1 && subd == 1
//@   requires cursor: 0 <= g.NDG.Index && g.NDG.Index < 299 && g.NDG.Num == real(g.NDG.Index + g.NDG.Offset)
//@   requires crop: 1 <= g.AKF.Index && g.AKF.Index < 299
//@   requires day: 4 <= g.TAG.Index && g.TAG.Index < 366
//@   ensures[C10] applied: due() ==> g.NFOS[0] == old(g.NFOS[0]) + old(g.NSAS[g.NDG.Index]) && g.NAOS[0] == old(g.NAOS[0]) + old(g.NLAS[g.NDG.Index]) && g.DSUMM == old(g.DSUMM) + old(g.NDIR[g.NDG.Index]) && g.NH4Sum == old(g.NH4Sum) + old(g.NH4N[g.NDG.Index]) && g.NFERTSIM == old(g.NFERTSIM) + old(g.NDIR[g.NDG.Index])
//@   ensures[C10] advanced: due() ==> g.NDG.Index == cur() + 1
//@   ensures[C10] notdue: !g.AUTOFERT && !due() ==> unchanged(g.NFOS, g.NAOS, g.DSUMM, g.NH4Sum, g.NFERTSIM, g.NDG.Index)
//@   ensures[C10] schedule: !g.AUTOFERT ==> unchanged(g.ZTDG, g.NSAS, g.NLAS, g.NDIR, g.NH4N)
//@   ensures[C10,C07] otherlayers: !g.AUTOFERT ==> forall(k, 1, 21, g.NFOS[k] == old(g.NFOS[k]) && g.NAOS[k] == old(g.NAOS[k])) && unchanged(g.C1)
// C10/C02: also with automatic fertilisation the mineral part of a fertiliser goes to the applied-fertiliser pool (and
// reaches the soil solution through dissolution in `mineral`), never directly into the mineral N of a layer
//@   serves C02
//@   ensures[C10,C02] autopool: g.AUTOFERT ==> unchanged(g.C1)
// an organic fertiliser tied to the harvest of the PREVIOUS rotation entry is applied on its day whatever the state of the
// current entry (also after the last harvest of the rotation, when no further crop is sown)
//@   define hdue() = g.AUTOFERT && subd == 1 && old(g.AKF.Num) > 1 && old(g.ODU[g.AKF.Index-1]) == 1 && old(g.ORGTIME[g.AKF.Index-1]) == "H" && zeit == old(g.ZTDG[g.AKF.Index-1])
//@   requires[C10] amounts: forall(k, 0, 300, g.NSAS[k] >= 0 && g.NLAS[k] >= 0 && g.NDIR[k] >= 0)
//@   ensures[C10] harvestorganic: hdue() && isnil(runErr) ==> g.NFOS[0] >= old(g.NFOS[0]) + old(g.NSAS[g.AKF.Index-1]) && g.NAOS[0] >= old(g.NAOS[0]) + old(g.NLAS[g.AKF.Index-1]) && g.DSUMM >= old(g.DSUMM) + old(g.NDIR[g.AKF.Index-1])
//@   ensures[C16,C07] autononneg: g.AUTOFERT && (forall(k, 0, 300, g.NDIR[k] >= 0)) ==> g.DSUMM >= old(g.DSUMM) && g.NFERTSIM >= old(g.NFERTSIM)

// tillage of the day: when due the pools are mixed evenly down to the tillage depth, which preserves their sums
//@ region Nitro#tillage from "if zeit == g.EINTE[g.NTIL.Index+1]+1 && subd == 1 {" to "if zeit == g.EINTE[g.NTIL.Index+1]+1 && subd == 1 {"
//@   return-ensures errorpath: !isnil(result1)
//@   serves C10, C07, C02
//@   define due() = zeit == old(g.EINTE[g.NTIL.Index+1]) + 1 && subd == 1
//@   define depth() = old(g.EINT[g.NTIL.Index])
//@   define mix() = ite(depth() > 0, real(floor(depth()/10 + 0.5)), 0.0)
//@   requires cursor: 0 <= g.NTIL.Index && g.NTIL.Index < 199 && g.NTIL.Num == real(g.NTIL.Index + g.NTIL.Offset)
//@   requires units: g.DZ.Num == 10
//@   requires depthcap: g.EINT[g.NTIL.Index] < 45
//@   requires nonneg: forall(k, 0, 4, g.C1[k] >= 0)
//@   ensures[C10] advanced: due() ==> g.NTIL.Index == old(g.NTIL.Index) + 1
//@   ensures[C10] notdue: !due() ==> unchanged(g.NFOS, g.NAOS, g.MINFOS, g.MINAOS, g.C1, g.NTIL.Index)
//@   ensures[C07] fastsum: sum(z, 0, floor(mix()), 4, g.NFOS[z] + g.MINFOS[z]) == sum(z, 0, floor(mix()), 4, old(g.NFOS[z]) + old(g.MINFOS[z]))
//@   ensures[C07] slowsum: sum(z, 0, floor(mix()), 4, g.NAOS[z] + g.MINAOS[z]) == sum(z, 0, floor(mix()), 4, old(g.NAOS[z]) + old(g.MINAOS[z]))
//@   ensures[C07,C02] mineralsum: sum(z, 0, floor(mix()), 4, g.C1[z]) == sum(z, 0, floor(mix()), 4, old(g.C1[z]))
//@   ensures[C07,C02] below: forall(k, 4, 21, g.NFOS[k] == old(g.NFOS[k]) && g.NAOS[k] == old(g.NAOS[k]) && g.C1[k] == old(g.C1[k]))
//@   ensures[C10] schedule: unchanged(g.EINTE, g.EINT)
//@ loop Nitro@"for z := 0; z < int(mixtief); z++ { NFOSUM = NFOSUM + g.NFOS[z]"
//@   invariant range: 0 <= \i && \i <= int(mixtief) && 0 <= int(mixtief) && int(mixtief) <= 4 && mixtief == real(int(mixtief))
//@   invariant sums: NFOSUM == sum(z, 0, \i, 4, g.NFOS[z]) && NAOSUM == sum(z, 0, \i, 4, g.NAOS[z]) && nmifosum == sum(z, 0, \i, 4, g.MINFOS[z]) && nmiaosum == sum(z, 0, \i, 4, g.MINAOS[z]) && CSUM == sum(z, 0, \i, 4, g.C1[z])
//@ loop Nitro@"for z := 0; z < int(mixtief); z++ { g.NFOS[z] = NFOSUM / mixtief"
//@   invariant range: 0 <= \i && \i <= int(mixtief)
//@   invariant mixed: forall(z, 0, \i, g.NFOS[z] == NFOSUM/mixtief && g.NAOS[z] == NAOSUM/mixtief && g.MINFOS[z] == nmifosum/mixtief && g.MINAOS[z] == nmiaosum/mixtief && g.C1[z] == CSUM/mixtief)
//@   invariant rest: forall(z, \i, 21, g.NFOS[z] == pre(g.NFOS[z]) && g.NAOS[z] == pre(g.NAOS[z]) && g.C1[z] == pre(g.C1[z])) && forall(z, \i, 4, g.MINFOS[z] == pre(g.MINFOS[z]) && g.MINAOS[z] == pre(g.MINAOS[z]))
//@   invariant csum: CSUM >= 0

// Exactly once, on time: with a strictly ascending schedule (Input#fertshift / Input#tillshift), "applied iff the day equals
// the date under the cursor (+ lag), cursor + 1" (Nitro#fert, Nitro#tillage, Run$1#irrigation) keeps the invariant
// "the event under the cursor is not in the past"; hence every event is applied, exactly when the day reaches its date.
// (induction step over days; t = day, s0 = date under the cursor, s1 = next date, lag = 1 for fertiliser/tillage, 0 for irrigation)
//@ lemma C10-exactly-once
//@   serves C10
//@   var t int
//@   var s0 int
//@   var s1 int
//@   var lag int
//@   assume 0 <= lag && lag <= 1
//@   assume t <= s0 + lag
//@   assume s0 < s1
//@   prove applied: t == s0 + lag ==> t + 1 <= s1 + lag
//@   prove waiting: t != s0 + lag ==> t + 1 <= s0 + lag
//@   prove ontime: t == s0 + lag ==> t >= s0 && t <= s0 + 1

// ---------------------------------------------------------------------------
// C04  weather: documented normalisations only, calendar lock-step, loader errors end the run
// month index (0-based) of a day of year in the non-leap table the rain correction is documented with
//@ global define monthidx(T) = ite(T > cum(1901, 2), 1, 0) + ite(T > cum(1901, 3), 1, 0) + ite(T > cum(1901, 4), 1, 0) + ite(T > cum(1901, 5), 1, 0) + ite(T > cum(1901, 6), 1, 0) + ite(T > cum(1901, 7), 1, 0) + ite(T > cum(1901, 8), 1, 0) + ite(T > cum(1901, 9), 1, 0) + ite(T > cum(1901, 10), 1, 0) + ite(T > cum(1901, 11), 1, 0) + ite(T > cum(1901, 12), 1, 0)
//@ func corrArr.getCorrValue
//@   serves C04
//@   requires table: len(CORRK) >= 12
//@   ensures month: \result == CORRK[monthidx(T)]

//@ func WeatherDataShared.transformWeatherData
//@   serves C04
//@   requires years: 0 <= yrz && yrz <= len(s.MaxYearDays) && yrz <= len(s.REG) && yrz <= len(s.RADI) && yrz <= len(s.WIN)
//@   requires days: forall(y, 0, yrz, 0 <= s.MaxYearDays[y] && s.MaxYearDays[y] <= 366)
//@   requires table: len(corr) >= 12
//@   ensures rain: forall(y, 0, yrz, forall(i, 0, s.MaxYearDays[y], s.REG[y][i] == old(s.REG[y][i])/10*corr[monthidx(i+1)]))
//@   ensures par: forall(y, 0, yrz, forall(i, 0, s.MaxYearDays[y], s.RADI[y][i] == old(s.RADI[y][i])/2))
//@   ensures windfloor: forall(y, 0, yrz, forall(i, 0, s.MaxYearDays[y], s.WIN[y][i] == max(old(s.WIN[y][i]), 0.5)))
//@   ensures days: s.MaxYearDays == old(s.MaxYearDays)
//@   safety index
//@ loop WeatherDataShared.transformWeatherData#1
//@   invariant range: 0 <= \i && \i <= yrz
//@   invariant done: forall(y, 0, \i, forall(i, 0, s.MaxYearDays[y], s.REG[y][i] == old(s.REG[y][i])/10*corr[monthidx(i+1)] && s.RADI[y][i] == old(s.RADI[y][i])/2 && s.WIN[y][i] == max(old(s.WIN[y][i]), 0.5)))
//@   invariant rest: forall(y, \i, yrz, s.REG[y] == old(s.REG[y]) && s.RADI[y] == old(s.RADI[y]) && s.WIN[y] == old(s.WIN[y]))
//@   invariant lens: len(s.REG) == old(len(s.REG)) && len(s.RADI) == old(len(s.RADI)) && len(s.WIN) == old(len(s.WIN)) && s.MaxYearDays == old(s.MaxYearDays) && len(s.MaxYearDays) == old(len(s.MaxYearDays))
//@ loop WeatherDataShared.transformWeatherData#2
//@   invariant range: 0 <= \i && \i <= T && T == s.MaxYearDays[y]
//@   invariant done: forall(i, 0, \i, s.REG[y][i] == old(s.REG)[y][i]/10*corr[monthidx(i+1)] && s.RADI[y][i] == old(s.RADI)[y][i]/2 && s.WIN[y][i] == max(old(s.WIN)[y][i], 0.5))
//@   invariant todo: forall(i, \i, 366, s.REG[y][i] == old(s.REG)[y][i] && s.RADI[y][i] == old(s.RADI)[y][i] && s.WIN[y][i] == old(s.WIN)[y][i])
//@   invariant others: forall(z, 0, yrz, z != y ==> s.REG[z] == pre(s.REG[z]) && s.RADI[z] == pre(s.RADI[z]) && s.WIN[z] == pre(s.WIN[z]))
//@   invariant lens: len(s.REG) == old(len(s.REG)) && len(s.RADI) == old(len(s.RADI)) && len(s.WIN) == old(len(s.WIN)) && s.MaxYearDays == old(s.MaxYearDays) && len(s.MaxYearDays) == old(len(s.MaxYearDays))

// missing optional values: mean of the two calendar neighbours (the day after 31 Dec is 1 Jan of the next year), 0 when a
// neighbour is missing or outside the series; mandatory series only have the sentinel replaced by 0
//@ func WeatherDataShared.replaceMissingValues
//@   serves C04
//@   define T(y) = s.MaxYearDays[y]
//@   define both(y, i) = (i > 0 || y > 0) && (i+1 < T(y) || y+1 < yrz)
//@   define pY(y, i) = ite(i > 0, y, y-1)
//@   define pI(y, i) = ite(i > 0, i-1, T(y-1)-1)
//@   define nY(y, i) = ite(i+1 < T(y), y, y+1)
//@   define nI(y, i) = ite(i+1 < T(y), i+1, 0)
//@   define fill(A, A0, y, i) = ite(both(y, i), ite(A0[y][i] == noneValue && A[pY(y, i)][pI(y, i)] != noneValue && A0[nY(y, i)][nI(y, i)] != noneValue, (A[pY(y, i)][pI(y, i)] + A0[nY(y, i)][nI(y, i)])/2, A0[y][i]), ite(A0[y][i] == noneValue, 0.0, A0[y][i]))
//@   define zeroed(v) = ite(v == noneValue, 0.0, v)
//@   requires years: 0 <= yrz && yrz <= len(s.MaxYearDays) && yrz <= len(s.TMP) && yrz <= len(s.VERD) && yrz <= len(s.SUND) && yrz <= len(s.RADI) && yrz <= len(s.REG)
//@   requires days: forall(y, 0, yrz, 1 <= s.MaxYearDays[y] && s.MaxYearDays[y] <= 366)
//@   ensures[C04] tmp: forall(y, 0, yrz, forall(i, 0, T(y), s.TMP[y][i] == fill(s.TMP, old(s.TMP), y, i)))
//@   ensures[C04.a] verd: forall(y, 0, yrz, forall(i, 0, T(y), s.VERD[y][i] == fill(s.VERD, old(s.VERD), y, i)))
//@   ensures[C04.b] rad: forall(y, 0, yrz, forall(i, 0, T(y), s.RADI[y][i] == zeroed(old(s.RADI)[y][i]) && s.REG[y][i] == zeroed(old(s.REG)[y][i])))
//@   ensures days: s.MaxYearDays == old(s.MaxYearDays)
//@   safety[C04] index
//@ loop WeatherDataShared.replaceMissingValues#1
//@   invariant range: 0 <= \i && \i <= yrz
//@   invariant lens: len(s.TMP) == old(len(s.TMP)) && len(s.VERD) == old(len(s.VERD)) && len(s.SUND) == old(len(s.SUND)) && len(s.RADI) == old(len(s.RADI)) && len(s.REG) == old(len(s.REG)) && s.MaxYearDays == old(s.MaxYearDays) && len(s.MaxYearDays) == old(len(s.MaxYearDays))
//@   invariant[C04] tmpdone: forall(y, 0, \i, forall(i, 0, T(y), s.TMP[y][i] == fill(s.TMP, old(s.TMP), y, i)))
//@   invariant[C04] tmprest: forall(y, \i, yrz, s.TMP[y] == old(s.TMP)[y])
//@   invariant[C04.a] verddone: forall(y, 0, \i, forall(i, 0, T(y), s.VERD[y][i] == fill(s.VERD, old(s.VERD), y, i)))
//@   invariant[C04.a] verdrest: forall(y, \i, yrz, s.VERD[y] == old(s.VERD)[y])
//@   invariant[C04.b] raddone: forall(y, 0, \i, forall(i, 0, T(y), s.RADI[y][i] == zeroed(old(s.RADI)[y][i]) && s.REG[y][i] == zeroed(old(s.REG)[y][i])))
//@   invariant[C04.b] radrest: forall(y, \i, yrz, s.RADI[y] == old(s.RADI)[y] && s.REG[y] == old(s.REG)[y])
//@ loop WeatherDataShared.replaceMissingValues#2
//@   invariant range: 0 <= \i && \i <= T && T == s.MaxYearDays[y] && 0 <= y && y < yrz
//@   invariant lens: len(s.TMP) == old(len(s.TMP)) && len(s.VERD) == old(len(s.VERD)) && len(s.SUND) == old(len(s.SUND)) && len(s.RADI) == old(len(s.RADI)) && len(s.REG) == old(len(s.REG)) && s.MaxYearDays == old(s.MaxYearDays) && len(s.MaxYearDays) == old(len(s.MaxYearDays))
//@   invariant[C04] tmpyears: forall(z, 0, y, forall(i, 0, T(z), s.TMP[z][i] == fill(s.TMP, old(s.TMP), z, i)))
//@   invariant[C04] tmpdone: forall(i, 0, \i, s.TMP[y][i] == fill(s.TMP, old(s.TMP), y, i))
//@   invariant[C04] tmptodo: forall(i, \i, 366, s.TMP[y][i] == old(s.TMP)[y][i]) && forall(z, y+1, yrz, s.TMP[z] == old(s.TMP)[z])
//@   invariant[C04.a] verdyears: forall(z, 0, y, forall(i, 0, T(z), s.VERD[z][i] == fill(s.VERD, old(s.VERD), z, i)))
//@   invariant[C04.a] verddone: forall(i, 0, \i, s.VERD[y][i] == fill(s.VERD, old(s.VERD), y, i))
//@   invariant[C04.a] verdtodo: forall(i, \i, 366, s.VERD[y][i] == old(s.VERD)[y][i]) && forall(z, y+1, yrz, s.VERD[z] == old(s.VERD)[z])
//@   invariant[C04.b] radyears: forall(z, 0, y, forall(i, 0, T(z), s.RADI[z][i] == zeroed(old(s.RADI)[z][i]) && s.REG[z][i] == zeroed(old(s.REG)[z][i])))
//@   invariant[C04.b] raddone: forall(i, 0, \i, s.RADI[y][i] == zeroed(old(s.RADI)[y][i]) && s.REG[y][i] == zeroed(old(s.REG)[y][i]))
//@   invariant[C04.b] radtodo: forall(i, \i, 366, s.RADI[y][i] == old(s.RADI)[y][i] && s.REG[y][i] == old(s.REG)[y][i]) && forall(z, y+1, yrz, s.RADI[z] == old(s.RADI)[z] && s.REG[z] == old(s.REG)[z])

// loading one year of the prepared series into the model's day-of-year arrays: day t of the model is day t of that year
//@ func LoadYear
//@   serves C04
//@   ghost var yi int = 0-1
//@   after stmt "g.JTAG = days": ghost yi = yearIdx
//@   define ny() = len(s.MaxYearDays)
//@   requires[C04.l] lens: ny() <= len(s.JAR) && ny() <= len(s.TMP) && ny() <= len(s.TMI) && ny() <= len(s.TMA) && ny() <= len(s.RELF) && ny() <= len(s.RADI) && ny() <= len(s.WIN) && ny() <= len(s.REG) && ny() <= len(s.SUND) && ny() <= len(s.VERD) && ny() <= len(s.ETNULL) && ny() <= len(s.CO2KONZ)
//@   requires[C04.l] days: forall(y, 0, ny(), 0 <= s.MaxYearDays[y] && s.MaxYearDays[y] <= 366)
//@   ensures which: isnil(\result) ==> 0 <= yi && yi < ny() && s.JAR[yi] == year && forall(y, 0, yi, s.JAR[y] != year)
//@   ensures length: isnil(\result) ==> g.JTAG == s.MaxYearDays[yi]
//@   ensures sameday: isnil(\result) ==> forall(t, 0, g.JTAG, g.TEMP[t] == s.TMP[yi][t] && g.REGEN[t] == s.REG[yi][t] && g.RAD[t] == s.RADI[yi][t] && g.WIND[t] == s.WIN[yi][t] && g.RH[t] == s.RELF[yi][t])
//@   ensures extremes: isnil(\result) ==> forall(t, 0, g.JTAG, ite(s.TMI[yi][t] > s.TMA[yi][t] + 0.5, g.TMIN[t] == s.TMA[yi][t] && g.TMAX[t] == s.TMI[yi][t], g.TMIN[t] == s.TMI[yi][t] && g.TMAX[t] == s.TMA[yi][t]))
//@   ensures optional: isnil(\result) ==> forall(t, 0, g.JTAG, (s.hasSUND ==> g.SUND[t] == s.SUND[yi][t]) && (s.hasVERD ==> g.VERD[t] == s.VERD[yi][t]) && (s.hasETNULL ==> g.ETNULL[t] == s.ETNULL[yi][t]))
//@   ensures missing: !isnil(\result) ==> forall(y, 0, ny(), s.JAR[y] != year) && unchanged(g.TEMP, g.TMIN, g.TMAX, g.REGEN, g.RAD, g.WIND, g.RH, g.JTAG)
//@   safety[C04.l] index
//@ loop LoadYear#1
//@   invariant range: 0 <= \i && \i <= ny() && loadedYears == ny()
//@   invariant notyet: forall(y, 0, \i, s.JAR[y] != year)
//@   invariant untouched: unchanged(g.TEMP, g.TMIN, g.TMAX, g.REGEN, g.RAD, g.WIND, g.RH, g.JTAG, g.SUND, g.VERD, g.ETNULL) && yi == 0-1
//@ loop LoadYear#2
//@   invariant range: 0 <= \i && \i <= max(days, 0) && days == s.MaxYearDays[yearIdx] && 0 <= yearIdx && yearIdx < ny()
//@   invariant sameday: forall(t, 0, \i, g.TEMP[t] == s.TMP[yearIdx][t] && g.REGEN[t] == s.REG[yearIdx][t] && g.RAD[t] == s.RADI[yearIdx][t] && g.WIND[t] == s.WIN[yearIdx][t] && g.RH[t] == s.RELF[yearIdx][t])
//@   invariant extremes: forall(t, 0, \i, ite(s.TMI[yearIdx][t] > s.TMA[yearIdx][t] + 0.5, g.TMIN[t] == s.TMA[yearIdx][t] && g.TMAX[t] == s.TMI[yearIdx][t], g.TMIN[t] == s.TMI[yearIdx][t] && g.TMAX[t] == s.TMA[yearIdx][t]))
//@   invariant optional: forall(t, 0, \i, (s.hasSUND ==> g.SUND[t] == s.SUND[yearIdx][t]) && (s.hasVERD ==> g.VERD[t] == s.VERD[yearIdx][t]) && (s.hasETNULL ==> g.ETNULL[t] == s.ETNULL[yearIdx][t]))

// calendar of the day loop: the day of year advances by one, rolls over after the last day of the loaded year, and a failing
// weather loader ends the run (ghost werr records a loader error; reaching the end of the region means there was none)
//@ region HermesSession.Run$1#calendar from "g.TAG.Add(g.DT.Index)" to "if g.TAG.Num == g.DT.Num {"
//@   return-ensures errorpath: !isnil(result0)
//@   serves C04, C05, C11
//@   opaque WetterK
//@   ghost var werr bool = false
//@   after call LoadYear: ghost werr = werr || !isnil(res0)
//@   after call WetterK: ghost werr = werr || !isnil(res0)
//@   requires step: g.DT.Index == 1 && g.DT.Num == 1
// (the day index at the top of the loop is the index of the day before: -1 on the first day of a run that starts on 1 January)
//@   requires day: 0-1 <= g.TAG.Index && g.TAG.Index + 1 <= g.JTAG && g.TAG.Offset == 1 && g.TAG.Num == real(g.TAG.Index + g.TAG.Offset)
//@   requires year: g.JTAG == 365 || g.JTAG == 366
//@   ensures[C04,C05] nextday: ite(old(g.TAG.Index) + 2 > old(g.JTAG), g.TAG.Index == 0 && g.J == old(g.J) + 1, g.TAG.Index == old(g.TAG.Index) + 1 && g.J == old(g.J))
//@   ensures[C04,C05] dual: g.TAG.Num == real(g.TAG.Index + 1)
// a year is left only when the weather of the WHOLE calendar year was loaded: a year file that ends early ends the run
// with an error (defect F32, repaired) instead of shortening the year and shifting every later day to another date's record
//@   requires[C04] century: 1 <= g.J && g.J < 199
//@   ensures[C04] fullyear: old(g.TAG.Index) + 2 > old(g.JTAG) ==> old(g.JTAG) >= ite(leap(1900 + old(g.J)), 366, 365)
//@   ensures[C04,C11] loadererrors: !werr
//@   ensures[C04] reload: g.TAG.Index == 0 && (driConfig.WeatherFileFormat == 0 || driConfig.WeatherFileFormat == 1 || driConfig.WeatherFileFormat == 2) ==> exists(y, 0, len(bbbShared.MaxYearDays), bbbShared.JAR[y] == 1900 + g.J && g.JTAG == bbbShared.MaxYearDays[y])

// lock-step lemma: day number and (year, day of year) advance together (years of 365 + leap days as loaded)
//@ lemma C04-lockstep
//@   serves C04, C05
//@   var zeit int
//@   var y int
//@   var doy0 int
//@   var len int
//@   assume 1901 <= y && y < 2099
//@   assume len == ite(leap(y), 366, 365)
//@   assume 0 <= doy0 && doy0 < len
//@   assume zeit == daynumber(y, 1, 1) + doy0
//@   prove sameyear: doy0 + 1 < len ==> zeit + 1 == daynumber(y, 1, 1) + (doy0 + 1)
//@   prove rollover: doy0 + 1 >= len ==> zeit + 1 == daynumber(y + 1, 1, 1) + 0

// first simulation year: every reader/loader error ends the run before Init
//@ region HermesSession.Run$1#firstyear from "if driConfig.WeatherFileFormat == 1 { yearEnde" to "if driConfig.WeatherFileFormat == 1 { yearEnde"
//@   return-ensures errorpath: !isnil(result0)
//@   serves C04, C11
//@   opaque WetterK ReadWeatherCSV ReadWeatherCZ
//@   ghost var werr bool = false
//@   after call LoadYear: ghost werr = werr || !isnil(res0)
//@   after call WetterK: ghost werr = werr || !isnil(res0)
//@   after call ReadWeatherCSV: ghost werr = werr || !isnil(res0)
//@   after call ReadWeatherCZ: ghost werr = werr || !isnil(res0)
//@   requires window: 1 <= g.ENDE && g.ENDE <= 72684
//@   ensures loadererrors: !werr
//@   ensures loaded: (driConfig.WeatherFileFormat == 0 || driConfig.WeatherFileFormat == 1 || driConfig.WeatherFileFormat == 2) ==> exists(y, 0, len(bbbShared.MaxYearDays), bbbShared.JAR[y] == 1900 + g.J && g.JTAG == bbbShared.MaxYearDays[y])

// ---------------------------------------------------------------------------
// C16  automatic management windows (weather-dependent triggers are arbitrary: every outcome of the trigger tests is covered)
// automatic irrigation: only between the configured stages of a sown crop, never more than the daily maximum, never negative
//@ region HermesSession.Run$1#autoirr from "if g.AUTOIRRI {" to "if g.AUTOIRRI {"
//@   serves C16
//@   define idx() = g.AKF.Index
//@   define inwindow() = g.AUTOIRRI && g.SAAT[idx()] > 0 && ZEIT > g.SAAT[idx()] && g.INTWICK.Num >= g.IRRST1[idx()] && g.INTWICK.Num < g.IRRST2[idx()] + 1
//@   requires crop: 0 <= g.AKF.Index && g.AKF.Index < 300
//@   requires cursor: 1 <= g.NBR && g.NBR <= len(g.BREG) && len(g.BREG) == len(g.ZTBR) && len(g.BREG) == len(g.BRKZ)
//@   requires day: 0 <= g.TAG.Index && g.TAG.Index < 366
//@   requires soil: forall(k, 0, 21, g.WMIN[k] < g.W[k])
//@   requires table: g.IRRMAX[idx()] >= 0 && g.IRRDEP[idx()] <= 21 && g.WURZMAX <= 21
//@   requires units: g.DZ.Num == 10
//@   ensures onlyinwindow: !inwindow() ==> g.BREG[g.NBR-1] == old(g.BREG[g.NBR-1]) && g.ZTBR[g.NBR-1] == old(g.ZTBR[g.NBR-1]) && g.IRRISIM == old(g.IRRISIM)
//@   ensures capped: g.BREG[g.NBR-1] == old(g.BREG[g.NBR-1]) || (0 <= g.BREG[g.NBR-1] && g.BREG[g.NBR-1] <= g.IRRMAX[idx()] && g.ZTBR[g.NBR-1] == ZEIT)
//@   ensures cursor: g.NBR == old(g.NBR)
//@ loop HermesSession.Run$1@"for I := 1; I <= maxdepth; I++ {"
//@   invariant range: 1 <= \i && (\i <= maxdepth + 1 || maxdepth < 0)
//@   invariant deficit: DEFZSUM >= 0

// automatic sowing: only inside the window, only once, forced on the last day of the window
//@ region HermesSession.Run$1#autosow from "if g.AUTOMAN && g.AKF.Num > 1 {" to "if g.AUTOMAN && g.AKF.Num > 1 {"
//@   serves C16
//@   define idx() = g.AKF.Index
//@   define sown() = g.SAAT[idx()] != old(g.SAAT[idx()])
//@   requires crop: 1 <= g.AKF.Index && g.AKF.Index < 300
//@   requires day: 0 <= g.TAG.Index && g.TAG.Index < 366
//@   requires window: g.SAAT1[idx()] <= g.SAAT2[idx()]
//@   requires pending: g.SAAT[idx()] == 0 ==> ZEIT <= g.SAAT2[idx()]
//@   requires daynumber: ZEIT >= 1
//@   ensures inside: sown() ==> g.AUTOMAN && g.AKF.Num > 1 && old(g.SAAT[idx()]) == 0 && g.SAAT[idx()] == ZEIT && g.SAAT1[idx()] <= ZEIT && ZEIT <= g.SAAT2[idx()]
//@   ensures afterharvest: sown() && ZEIT != g.SAAT2[idx()] ==> ZEIT > g.ERNTE[idx()-1] + 4
//@   ensures forced: g.AUTOMAN && g.AKF.Num > 1 && old(g.SAAT[idx()]) == 0 && ZEIT == g.SAAT2[idx()] && ZEIT >= g.SAAT1[idx()] ==> g.SAAT[idx()] == ZEIT
//@   ensures stillpending: g.AUTOMAN && g.AKF.Num > 1 && g.SAAT[idx()] == 0 ==> ZEIT + 1 <= g.SAAT2[idx()] || ZEIT < g.SAAT1[idx()]
//@   ensures others: forall(k, 0, 300, k != idx() ==> g.SAAT[k] == old(g.SAAT[k])) && unchanged(g.SAAT1, g.SAAT2, g.ERNTE)

// growing the irrigation arrays on demand keeps every earlier entry and stores the new one at the cursor
//@ func GlobalVarsMain.setIrrigation
//@   serves C16, C10
//@   requires index: 0 <= index
//@   requires lens: len(g.BREG) == len(g.ZTBR) && len(g.BREG) == len(g.BRKZ)
//@   ensures stored: g.BREG[index] == value && g.ZTBR[index] == zeit
//@   ensures kept: forall(k, 0, old(len(g.BREG)), k != index ==> g.BREG[k] == old(g.BREG[k]) && g.ZTBR[k] == old(g.ZTBR[k]) && g.BRKZ[k] == old(g.BRKZ[k]))
//@   ensures lens: len(g.BREG) == len(g.ZTBR) && len(g.BREG) == len(g.BRKZ) && len(g.BREG) > index && len(g.BREG) >= old(len(g.BREG))
//@   modifies g.BREG, g.ZTBR, g.BRKZ
//@   safety index

// automatic harvest inside the crop model: the harvest date is set at most once, to today (trigger) or to the latest
// harvest date (forced on the day before), hence never later than the configured latest date
//@ region PhytoOut#autoharvest from "if g.ERNTE[g.AKF.Index] == 0 { if g.INTWICK.Index+1 == l.NRENTW {" to "if g.ERNTE[g.AKF.Index] == 0 { if g.INTWICK.Index+1 == l.NRENTW {"
//@   serves C16
//@   define idx() = g.AKF.Index
//@   requires crop: 0 <= g.AKF.Index && g.AKF.Index < 299
//@   requires stage: 0 <= g.INTWICK.Index && g.INTWICK.Index < 10
//@   requires day: 0 <= g.TAG.Index && g.TAG.Index < 366
//@   requires pending: g.ERNTE[idx()] == 0 ==> zeit <= g.ERNTE2[idx()] - 1
//@   requires daynumber: zeit >= 1
//@   ensures once: old(g.ERNTE[idx()]) != 0 ==> g.ERNTE[idx()] == old(g.ERNTE[idx()]) && g.ERNTE2[idx()] == old(g.ERNTE2[idx()])
//@   ensures notlate: g.ERNTE[idx()] != 0 && old(g.ERNTE[idx()]) == 0 ==> (g.ERNTE[idx()] == zeit || g.ERNTE[idx()] == zeit + 1) && g.ERNTE[idx()] <= old(g.ERNTE2[idx()]) && g.ERNTE[idx()] <= g.ERNTE2[idx()]
//@   ensures forced: old(g.ERNTE[idx()]) == 0 && zeit == old(g.ERNTE2[idx()]) - 1 ==> g.ERNTE[idx()] != 0
//@   ensures stillpending: g.ERNTE[idx()] == 0 ==> zeit + 1 <= g.ERNTE2[idx()] - 1
//@   ensures nextsowing: forall(k, 0, 300, k != idx() + 1 ==> g.SAAT[k] == old(g.SAAT[k])) && (g.SAAT[idx()+1] == old(g.SAAT[idx()+1]) || g.SAAT[idx()+1] == zeit + 4)

// (the region ends at the statement that follows the forced-harvest test in the TOP-LEVEL statement list of PhytoOut, so it
// only binds to a test that every call reaches - emerged crop or not -, not to the copy inside the emergence branch)
//@ region PhytoOut#forcedharvest from "if zeit == g.ERNTE2[g.AKF.Index]-1 && g.ERNTE[g.AKF.Index] == 0 {" to "if DTGESN > 6*g.DT.Num {"
//@   serves C16, C05
//@   define idx() = g.AKF.Index
//@   requires crop: 0 <= g.AKF.Index && g.AKF.Index < 299
//@   ensures forced: old(g.ERNTE[idx()]) == 0 && zeit == g.ERNTE2[idx()] - 1 ==> g.ERNTE[idx()] == g.ERNTE2[idx()]
//@   ensures otherwise: !(old(g.ERNTE[idx()]) == 0 && zeit == g.ERNTE2[idx()] - 1) ==> unchanged(g.ERNTE, g.SAAT, g.SAAT2)
//@   ensures latest: unchanged(g.ERNTE2)

// rotation cursor at harvest: only moves forward, by one entry (two when the next crop is skipped because its sowing
// window has already closed under automatic management); a crop record is produced for every harvested crop
//@ region Nitro#harvest from "if zeit == g.ERNTE[g.AKF.Index] && subd == 1 {" to "if zeit == g.ERNTE[g.AKF.Index] && subd == 1 {"
//@   return-ensures errorpath: !isnil(result1)
//@   serves C16, C05
//@   opaque resid pinit fillBBCHgaps convertToDate
//@   ghost var hm int
//@   ghost var hd int
//@   after call KalenderDate: ghost hm = res1
//@   after call KalenderDate: ghost hd = res2
//@   define cur() = old(g.AKF.Index)
//@   define due() = zeit == old(g.ERNTE[g.AKF.Index]) && subd == 1
//@   requires crop: 0 <= g.AKF.Index && g.AKF.Index < 297 && g.AKF.Offset == 1 && g.AKF.Num == real(g.AKF.Index + g.AKF.Offset)
//@   requires tillage: 0 <= g.NTIL.Index && g.NTIL.Index < 199
//@   requires organ: 0 <= g.YORGAN && g.YORGAN <= 5
//@   requires roots: 0 <= g.WURZ && g.WURZ <= 20
//@   requires date: 1 <= zeit && zeit <= 72684
//@   ensures[C16] notdue: !due() ==> g.AKF.Index == cur() && finishedCycle == old(finishedCycle)
//@   ensures[C16] forward: due() ==> g.AKF.Index == cur() + 1 || g.AKF.Index == cur() + 2
//@   ensures[C16] skiponly: due() && g.AKF.Index == cur() + 2 ==> g.AUTOMAN && g.SAAT2[cur() + 1] <= zeit
//@   ensures[C05,C16] record: due() && cur() >= 1 ==> finishedCycle
//@   ensures[C16] harvestyear: due() && cur() >= 1 && g.AKF.Index == cur() + 1 ==> validDate(output.HarvestYear, hm, hd) && daynumber(output.HarvestYear, hm, hd) == zeit
//@   ensures[C16] rotation: unchanged(g.FRUCHT, g.SAAT1, g.SAAT2, g.ERNTE2)
// C07: the harvest restarts the per-crop sums only; the cumulative N counters of the run (fixation, uptake, mineralised
// amounts, fertiliser bookkeeping) run on - the per-crop fixation is derived as a difference of the cumulative counter
//@   serves C07
//@   ensures[C07] runcounters: unchanged(g.NFIXSUM, g.MINAOS, g.MINFOS, g.UMS, g.NH4UMS)
// C16: the crop record carries the code of the rotation entry that has just been harvested (taken from the rotation
// array at the cursor position before it advances, not from a display variable set elsewhere)
//@   ghost var recname string
//@   ghost var reccode int
//@   ghost var named bool = false
//@   after call g.CropTypeToString: ghost recname = res0
//@   at call g.CropTypeToString: ghost reccode = arg0
//@   at call g.CropTypeToString: ghost named = true
// (when the next entry's sowing window has already passed the record is overwritten by a SKIPPED record of that entry: excluded here as in harvestyear, see reading note F28)
//@   ensures[C16] cropcode: due() && cur() >= 1 && g.AKF.Index == cur() + 1 ==> named && output.Crop == recname && reccode == old(g.FRUCHT[g.AKF.Index])

// ---------------------------------------------------------------------------
// C09  crop state (regions of the crop model PhytoOut and of the parameter readers)
// development stage: moves forward by at most one stage per day, only when the stage's temperature sum is reached,
// never past the last stage; the day of year of the stage entry is recorded
//@ region PhytoOut#stage from "if g.SUM[g.INTWICK.Index] >= g.TSUM[g.INTWICK.Index] { if int(g.INTWICK.Num) < l.NRENTW {" to "if g.SUM[g.INTWICK.Index] >= g.TSUM[g.INTWICK.Index] { if int(g.INTWICK.Num) < l.NRENTW {"
//@   serves C09
//@   define st() = old(g.INTWICK.Index)
//@   requires stage: 0 <= g.INTWICK.Index && g.INTWICK.Index < 9 && g.INTWICK.Offset == 1 && g.INTWICK.Num == real(g.INTWICK.Index + g.INTWICK.Offset)
//@   requires stages: 1 <= l.NRENTW && l.NRENTW <= 10
//@   requires day: 0 <= g.TAG.Index && g.TAG.Index < 366
//@   ensures forward: g.INTWICK.Index == st() || g.INTWICK.Index == st() + 1
//@   ensures reached: g.INTWICK.Index == st() + 1 ==> old(g.SUM[g.INTWICK.Index]) >= g.TSUM[st()] && st() + 1 < l.NRENTW
//@   ensures entryday: g.INTWICK.Index == st() + 1 ==> g.DEV[g.INTWICK.Index] == g.TAG.Index + 1
//@   ensures earlier: forall(s, 0, 10, s != g.INTWICK.Index || g.INTWICK.Index == st() ==> g.DEV[s] == old(g.DEV[s]))
//@   ensures dual: g.INTWICK.Num == real(g.INTWICK.Index + 1)

// vernalisation factor in [0,1]; vernalisation days never decrease
//@ func vern
//@   serves C09
//@   requires stage: 0 <= g.INTWICK.Index && g.INTWICK.Index < 10
//@   requires day: 0 <= g.TAG.Index && g.TAG.Index < 366 && g.DT.Num == 1
//@   ensures factor: 0 <= l.FV && l.FV <= 1
//@   ensures days: g.VERNTAGE >= old(g.VERNTAGE)
//@   modifies g.VERNTAGE, l.FV
//@   safety[C09] div index

// development progress of one day: the photoperiod and vernalisation factors lie in [0,1] for long-day AND short-day crops,
// the stress acceleration is at least 1, so the temperature sums of the current stage and the cumulative sum never decrease
//@ region PhytoOut#development from "if g.VSCHWELL[g.INTWICK.Index] == 0 {" to "if g.TEMP[g.TAG.Index] >= g.BAS[g.INTWICK.Index] {"
//@   serves C09
//@   opaque CalulateDevelopmentStages
//@   requires stage: 0 <= g.INTWICK.Index && g.INTWICK.Index < 10
//@   requires day: 0 <= g.TAG.Index && g.TAG.Index < 366 && g.DT.Num == 1
//@   requires crop: 0 <= g.AKF.Index && g.AKF.Index < 300
//@   ensures photoperiod: 0 <= l.FP && l.FP <= 1
//@   ensures vernalisation: 0 <= l.FV && l.FV <= 1
//@   ensures stagesum: g.SUM[g.INTWICK.Index] >= old(g.SUM[g.INTWICK.Index])
//@   ensures phyllo: g.PHYLLO >= old(g.PHYLLO)
//@   ensures stageindex: g.INTWICK.Index == old(g.INTWICK.Index)

// organ masses: the first three organs stay positive, the others non-negative, leaf area index non-negative
//@ region PhytoOut#organs from "for i := 0; i < g.NRKOM; i++ { if g.SUM[g.INTWICK.Index]/g.TSUM[g.INTWICK.Index] > 1 {" to "for i := 0; i < g.NRKOM; i++ { if g.SUM[g.INTWICK.Index]/g.TSUM[g.INTWICK.Index] > 1 {"
//@   serves C09
// the leaf area index handed to the evapotranspiration routine on the NEXT day (Evatra runs before PhytoOut in the day
// loop) is what this loop leaves behind: its floor is also what C08's split of potential ET by leaf area relies on
//@   serves C08
//@   requires organs: 0 <= g.NRKOM && g.NRKOM <= 5
//@   requires stage: 1 <= g.INTWICK.Index && g.INTWICK.Index < 10
//@   requires lai: g.LAI >= 0
//@   ensures positive: forall(j, 0, g.NRKOM, ite(j < 3, g.WORG[j] > 0, g.WORG[j] >= 0))
//@   ensures lai: g.LAI >= 0
//@ loop PhytoOut@"for i := 0; i < g.NRKOM; i++ { if g.SUM[g.INTWICK.Index]/g.TSUM[g.INTWICK.Index] > 1 {"
//@   invariant range: 0 <= \i && \i <= g.NRKOM
//@   invariant positive: forall(j, 0, \i, ite(j < 3, g.WORG[j] > 0, g.WORG[j] >= 0))
//@   invariant lai: g.LAI >= 0
//@   invariant frame: g.NRKOM == pre(g.NRKOM) && g.INTWICK.Index == pre(g.INTWICK.Index)

// rooting depth: at least one layer, never deeper than the profile or the soil's root limit scaled by the crop factor
//@ region PhytoOut#rootdepth from "WURM := math.Round(float64(g.WURZMAX) * (g.WUMAXPF / 11.))" to "g.WURZ = int(4.5 / Qrez / g.DZ.Num)"
//@   serves C09
// (a rooting depth beyond the profile makes the uptake loops run over layers that do not exist: 0/0 in the N uptake - C06)
//@   serves C06
//@   opaque root
//@   requires layers: 1 <= g.N && g.N <= 20
//@   requires units: g.DZ.Num == 10
//@   ensures inprofile: 1 <= g.WURZ && g.WURZ <= g.N
//@   ensures rootlimit: real(g.WURZ) <= max(1.0, real(floor(real(g.WURZMAX)*(g.WUMAXPF/11) + 0.5)))

// N uptake per layer: non-negative and never more than what the layer holds above 0.75 kg N/ha
//@ region PhytoOut#uptake from "var SUMPE float64" to "for index := 0; index < int(min); index++ { if DTGESN > 0 {"
//@   serves C09, C07
//@   requires roots: 0 <= g.WURZ && g.WURZ <= 20
//@   ensures bounded: forall(j, 0, 21, real(j) < min(real(g.WURZ), g.GRW) - 1 ==> g.PE[j] >= 0 && g.PE[j] <= max(0.0, g.C1[j] - 0.75))
//@   ensures total: SUMPE >= 0
//@ loop PhytoOut@"for index := 0; index < int(min); index++ { if DTGESN > 0 {"
//@   invariant range: 0 <= \i && (real(\i) <= min || min < 0) && min == math.Min(real(g.WURZ), g.GRW)
//@   invariant bounded: forall(j, 0, \i, g.PE[j] >= 0 && g.PE[j] <= max(0.0, g.C1[j] - 0.75))
//@   invariant total: SUMPE >= 0
//@   invariant frame: g.C1 == pre(g.C1) && g.WURZ == pre(g.WURZ) && g.GRW == pre(g.GRW)

// sowing an annual crop clears every stage sum and stage-entry day of the previous crop (both readers)
//@ region ReadCropParamYml#reset from "maxOrgans := 5" before "if g.NRKOM != len(cropParam.CompartmentNames) {"
//@   serves C09
//@   unroll-loops 10
//@   ensures cleared: !g.DAUERKULT ==> forall(s, 0, 10, g.SUM[s] == 0 && g.DEV[s] == 0) && g.PHYLLO == 0 && g.VERNTAGE == 0
//@ region ReadCropParamClassic#reset from "if !g.DAUERKULT { ResetStages(g)" to "if !g.DAUERKULT { ResetStages(g)"
//@   serves C09
//@   ensures cleared: !g.DAUERKULT ==> forall(s, 0, 10, g.SUM[s] == 0 && g.DEV[s] == 0) && g.PHYLLO == 0 && g.VERNTAGE == 0
//@ loop ReadCropParamYml@"for _, organ := range l.AboveGroundOrgans {"
//@   invariant none: true
//@ loop ReadCropParamClassic@"for i := 0; i < 5; i++ { for i2 := 0; i2 < 10; i2++ {"
//@   unroll 5
//@ loop ReadCropParamClassic@"for i2 := 0; i2 < 10; i2++ { g.SUM[i2] = 0 g.DEV[i2] = 0"
//@   unroll 10

// ---------------------------------------------------------------------------
// C05  output records of the day loop (ghost counters count the records handed to the writers)
// annual output day: clamped to a day of year that every year has, so each simulated year meets it exactly once
//@ region HermesSession.Run$1#outday from "OUTDAY, OUTY := g.Datum(DAYOUT)" to "if OUTDAY >"
//@   serves C05
//@   opaque DateConverter$1
//@   ensures everyyear: OUTDAY <= 365

//@ region HermesSession.Run$1#yearly from "if g.TAG.Index+1 == OUTDAY {" to "if g.TAG.Index+1 == OUTDAY {"
//@   serves C05
//@   ghost var yearly int
//@   at call yearlyOutConfig.WriteLine: ghost yearly = yearly + 1
//@   requires year: 0 <= JZ && JZ < 200 && g.JTAG >= 365
//@   ensures onrecord: yearly == old(yearly) + ite(old(g.TAG.Index) + 1 == OUTDAY, 1, 0)
//@   ensures calendar: unchanged(g.TAG.Index, g.J, g.JTAG)
// the annual reset restarts the annual sums only: the organic pools, their mineralised-amount counters and the
// applied/dissolved fertiliser bookkeeping run through the whole simulation (C07: pool + counter change only through inputs)
//@   serves C07
//@   ensures[C07] poolcounters: unchanged(g.MINAOS, g.MINFOS, g.NAOS, g.NFOS, g.DSUMM, g.UMS, g.NH4Sum, g.NH4UMS, g.C1)

//@ region HermesSession.Run$1#daily from "if OUTINT > 0 { if (ZEIT % OUTINT) == 0 {" to "if OUTINT > 0 { if (ZEIT % OUTINT) == 0 {"
//@   serves C05
//@   ghost var daily int
//@   at call dailyOutputConfig.WriteLine: ghost daily = daily + 1
//@   requires crop: 0 <= g.AKF.Index && g.AKF.Index < 300
//@   ensures onrecord: daily == old(daily) + ite(OUTINT > 0 && tmod(ZEIT, OUTINT) == 0, 1, 0)
//@   ensures calendar: unchanged(g.TAG.Index, g.J, g.JTAG)

// crop record: written iff Nitro reports a finished crop cycle (Nitro#harvest/post:record), once per report
//@ region HermesSession.Run$1#croprecord from "finished, err := Nitro(WDT, SUBD, ZEIT, &g, &nitroSharedVars, &nitroSharedBBBVars, &herPath, &cropOut)" to "if finished {"
//@   return-ensures errorpath: !isnil(result0)
//@   serves C05
//@   opaque Nitro
//@   ghost var crops int
//@   ghost var reported bool = false
//@   after call Nitro: ghost reported = res0
//@   at call cropOutputConfig.WriteLine: ghost crops = crops + 1
//@   ensures onrecord: crops == old(crops) + ite(reported, 1, 0)

// one yearly record per simulated year; one daily record per day whose number is a multiple of the interval
//@ lemma C05-yearly
//@   serves C05
//@   var outday int
//@   var len int
//@   var d1 int
//@   var d2 int
//@   assume 1 <= outday && outday <= 365
//@   assume len == 365 || len == 366
//@   prove exists: 0 <= outday - 1 && outday - 1 < len
//@   prove unique: 0 <= d1 && d1 < len && 0 <= d2 && d2 < len && d1 + 1 == outday && d2 + 1 == outday ==> d1 == d2

// the day loop visits every day number from the start to the end date exactly once, in order: nothing in the (whole) loop
// body writes the day counter, the step or the start (frame decided over the real body; callees by their inferred write sets);
// the end date may only be changed by the fertiliser forecast mode, which ends a run early (not part of the property)
//@ region HermesSession.Run$1#dayloop from "for ZEIT := g.BEGINN; ZEIT <= g.ENDE; ZEIT = ZEIT + g.DT.Index {" to "for ZEIT := g.BEGINN; ZEIT <= g.ENDE; ZEIT = ZEIT + g.DT.Index {"
//@   serves C05
//@   opaque KalenderDate LoadYear WetterK GetGroundWaterLevel Hydro calcWRed setFieldCapacityWithGW Evatra Soiltemp Water PhytoOut Nitro Denitmo Denitr GlobalVarsMain.setIrrigation KalenderConverter$1 DateConverter$1
//@   requires step: g.DT.Index == 1
//@   requires window: g.BEGINN <= g.ENDE + 1
// the END DATE itself is simulated (C05: its record is written; C10: an action due on the last day is carried out): the
// ghost `covered` is the last day whose loop body has run; the loop is left with covered >= end date on every exit
//@   serves C10
//@   ghost var covered int
//@   requires fresh: covered == g.BEGINN - 1
//@   before stmt "if ZEIT == g.BEGINN {": ghost covered = ZEIT
//@   ensures[C05,C10] lastday: covered >= g.ENDE
//@ loop HermesSession.Run$1@"for ZEIT := g.BEGINN; ZEIT <= g.ENDE; ZEIT = ZEIT + g.DT.Index {"
//@   invariant begin: g.BEGINN == pre(g.BEGINN)
//@   invariant step: g.DT.Index == 1
//@   invariant range: g.BEGINN <= \i
//@   invariant[C05,C10] covered: covered == \i - 1

// ---------------------------------------------------------------------------
// C11  termination and per-run failure reporting (sequential part; isolation across concurrent runs is outside)
// Day-length search of the fertiliser forecast: both searches end at any latitude. The day-length function is
// periodic in the day of year, so the search is bounded by one year; the measure is the number of days left.
// CalculateDayLenght is used through its (trusted) range contract only: the proof holds for ANY day-length values.
//@ func LangTagConverter$1
//@   serves C11
//@   opaque extractDate
//@   ghost var day1 int
//@   ghost var day2 int
//@   after stmt "if P1 == 0 {": ghost day1 = P1
//@   after stmt "if P2 == 0 {": ghost day2 = P2
//@   ensures first: 0 <= day1 && day1 <= 365
//@   ensures second: 0 <= day2 && day2 <= 366
//@ loop LangTagConverter$1#1
//@   invariant range: 0 <= TAG && TAG <= 365 && (ok ==> TAG < 365)
//@   invariant longest: 0 <= longestDay && longestDay <= TAG
//@   invariant found: 0 <= P1 && P1 <= TAG
//@   decreases 366 - TAG
//@ loop LangTagConverter$1#2
//@   invariant range: 0 <= TAG && TAG <= 366 && (TAG > 365 ==> !ok)
//@   invariant longest: 0 <= longestDay && longestDay <= 366
//@   invariant found: 0 <= P2 && P2 <= TAG
//@   decreases 367 - TAG

// Every call of Run reports exactly one result for its own log id, and the success flag says whether the run body
// returned an error; a failed run is reported on the log channel, never by aborting the process (when a log channel exists).
//@ region HermesSession.Run#epilogue from "result := &RunReturn{" to "if out != nil {"
//@   serves C11
// sequential isolation: Run (its closure and everything they statically call in the repository) mutates no package-level
// variable - nothing a run computes can reach a later run of the session except through the session's file pool
// (FilePool.Get, under contract) and the file system. Decided on the syntactic call graph (calls through function values
// and interfaces are not followed: the three converter closures of readConfig capture only their arguments).
//@   safety[C11] noglobals
//@   ghost var sent int = 0
//@   ghost var sentLog int = 0
//@   ghost var sentID string
//@   ghost var sentOK bool
//@   after stmt "out <- result": ghost sent = sent + 1
//@   after stmt "out <- result": ghost sentID = result.LogID
//@   after stmt "out <- result": ghost sentOK = result.Success
//@   after stmt "logout <- result.String()": ghost sentLog = sentLog + 1
//@   safety[C11] nofatal
//@   requires logchan: !isnil(logout)
//@   ensures one: sent == ite(!isnil(out), 1, 0)
//@   ensures own: !isnil(out) ==> sentID == logID
//@   ensures flag: !isnil(out) ==> iff(sentOK, isnil(returnedWithErr))
//@   ensures logged: sentLog == ite(isnil(returnedWithErr), 0, 1)

// Reported error classes end the run with an error, they never abort the process and never let the run continue.
// soil texture not in the parameter table: Input only goes on when every horizon's texture is one of the table's
//@ region Input#texturecheck from "for horizon := 0; horizon < currentSoil.AZHO; horizon++ {" to "for horizon := 0; horizon < currentSoil.AZHO; horizon++ {"
//@   return-ensures errorpath: !isnil(result0)
//@   serves C11
//@   safety[C11] nofatal
//@   ensures listed: forall(h, 0, currentSoil.AZHO, exists(t, 0, len(l.ValidSoilTexture), currentSoil.BART[h] == l.ValidSoilTexture[t]))
//@ loop Input@"for horizon := 0; horizon < currentSoil.AZHO; horizon++ {"
//@   invariant range: 0 <= \i
//@   invariant done: forall(h, 0, \i, exists(t, 0, len(l.ValidSoilTexture), currentSoil.BART[h] == l.ValidSoilTexture[t]))
//@ loop Input@"for iTex := 0; iTex < len(l.ValidSoilTexture); iTex++ {"
//@   invariant range: 0 <= \i && \i <= len(l.ValidSoilTexture)
//@   invariant none: !textureExists && forall(t, 0, \i, currentSoil.BART[horizon] != l.ValidSoilTexture[t])

// texture of the deepest horizon not in the capillary-rise table: Hydro returns an error for this run
// (reading past the end of the table must not abort the whole batch process)
//@ region Hydro#parcap from "if horizon == g.AZHO {" to "if horizon == g.AZHO {"
//@   return-ensures errorpath: !isnil(result1)
//@   serves C11
//@   safety[C11] nofatal
//@   ensures done: true

// Helpers that abort the process only for failures OUTSIDE the error classes the model reports per run
// (assumptions, listed in the evidence wherever a no-abort proof relies on them):
//@ func HermesSession.Open
//@   serves C11
//@   trusted
//@   aborts-only a parameter or input file of the project cannot be opened or read (environment failure, not a reported input error class)
//@ func ValAsFloat
//@   serves C11, C10
//@   ensures-assumed parsed: result0 == ufreal("number", toParse)
//@   modifies nothing
//@   aborts-only a numeric field of a parameter table is not a number (malformed table, not a reported input error class)

// inconsistent texture fractions (pedotransfer route): Input only goes on with fractions that add up to 100 % (+-3)
// and are all present; every rejection returns a non-nil error
//@ region Input#fractions from "soilSum := l.TON[lindex] + l.SLUF[lindex] + l.SSAND[lindex]" to "if l.SSAND[lindex] == 0 {"
//@   serves C11
//@   safety[C11] nofatal
//@   ensures consistent: 97 <= l.TON[lindex] + l.SLUF[lindex] + l.SSAND[lindex] && l.TON[lindex] + l.SLUF[lindex] + l.SSAND[lindex] <= 103
//@   ensures present: l.TON[lindex] != 0 && l.SLUF[lindex] != 0 && l.SSAND[lindex] != 0
//@   return-ensures error: !isnil(result0)

// tillage between sowing and harvest: Nitro only goes on when the next tillage date is not inside the growing
// period of the current crop; otherwise it returns a non-nil error (which Run returns, see Run$1#nitroerr)
//@ region Nitro#tillagedate between "if subd == 1 { if zeit == g.EINTE[g.NTIL.Index+1] { if g.SAAT[g.AKF.Index] > 0 && g.ERNTE[g.AKF.Index] == 0 {" and "if zeit == g.EINTE[g.NTIL.Index+1]+1 && subd == 1 {"
//@   serves C11
//@   opaque KalenderConverter$1
//@   ensures outside: !(g.SAAT[g.AKF.Index] > 0 && g.EINTE[g.NTIL.Index+1] > g.SAAT[g.AKF.Index] && g.EINTE[g.NTIL.Index+1] <= g.ERNTE[g.AKF.Index])
//@   return-ensures error: !isnil(result1)

// start year not matching the first harvest: the day loop only goes on when the calendar year of the first day
// is the year the weather was loaded for; otherwise the run ends with a non-nil error
//@ region HermesSession.Run$1#startyear from "if ZEIT == g.BEGINN {" to "if ZEIT == g.BEGINN {"
//@   serves C11
//@   safety[C11] nofatal
//@   requires domain: 1 <= ZEIT && ZEIT <= 72684
//@   ensures matches: ZEIT == g.BEGINN ==> exists(m, 1, 13, exists(d, 1, 32, validDate(1900 + g.J, m, d) && daynumber(1900 + g.J, m, d) == ZEIT))
//@   return-ensures error: !isnil(result0)

// errors of the input and nitrogen modules end the run with that error (the run never continues after one)
//@ region HermesSession.Run$1#inputerr from "errSoil := Input(&herInputVars, &g, &herPath, &driConfig, SOID, gwId)" to "if errSoil != nil {"
//@   serves C11
//@   opaque Input
//@   ghost var failed bool = false
//@   after call Input: ghost failed = !isnil(res0)
//@   ensures stops: !failed
//@   return-ensures error: !isnil(result0)
//@ region HermesSession.Run$1#nitroerr from "finished, err := Nitro(WDT, SUBD, ZEIT, &g, &nitroSharedVars, &nitroSharedBBBVars, &herPath, &cropOut)" to "if err != nil {"
//@   serves C11
//@   opaque Nitro
//@   ghost var failed bool = false
//@   after call Nitro: ghost failed = !isnil(res1)
//@   ensures stops: !failed
//@   return-ensures error: !isnil(result0)

// ---------------------------------------------------------------------------
// C10  fertiliser table split (dueng): the amounts of event i come from the table row whose CODE EQUALS the fertiliser
// code of the event (first column, whole token), and are the stated split of applied quantity x total N:
// direct part (minus ammonia loss), ammonium part, fast and slow organic parts. number(t) is the parsed value of a
// table token (text layer, uninterpreted); f2..f5, vol are the fractions of the matching row (ghost).
//@ func dueng
//@   serves C10
//@   ghost var matched bool = false
//@   ghost var code string
//@   ghost var ntot real
//@   ghost var f2 real
//@   ghost var f3 real
//@   ghost var f4 real
//@   ghost var f5 real
//@   ghost var vol real
//@   after stmt "l.NORG[i] = ValAsFloat(token[1]": ghost matched = true
//@   after stmt "l.NORG[i] = ValAsFloat(token[1]": ghost code = token[0]
//@   after stmt "l.NORG[i] = ValAsFloat(token[1]": ghost ntot = ufreal("number", token[1])
//@   after stmt "l.NORG[i] = ValAsFloat(token[1]": ghost f2 = ufreal("number", token[2])
//@   after stmt "l.NORG[i] = ValAsFloat(token[1]": ghost f3 = ufreal("number", token[3])
//@   after stmt "l.NORG[i] = ValAsFloat(token[1]": ghost f4 = ufreal("number", token[4])
//@   after stmt "l.NORG[i] = ValAsFloat(token[1]": ghost f5 = ufreal("number", token[5])
//@   after stmt "l.NORG[i] = ValAsFloat(token[1]": ghost vol = ufreal("number", token[6])
//@   define split() = (matched ==> code == g.DGART[i] && l.NORG[i] == ntot && g.NDIR[i] == l.DGMG[i]*ntot*f2*(1 - f5*vol) && g.NH4N[i] == l.DGMG[i]*ntot*f2*f5*(1 - vol) && g.NSAS[i] == (l.DGMG[i]*ntot - g.NDIR[i])*f3 && g.NLAS[i] == (l.DGMG[i]*ntot - g.NDIR[i])*f4)
//@   define others() = forall(k, 0, 300, k != i ==> g.NDIR[k] == old(g.NDIR[k]) && g.NH4N[k] == old(g.NH4N[k]) && g.NSAS[k] == old(g.NSAS[k]) && g.NLAS[k] == old(g.NLAS[k]) && l.NORG[k] == old(l.NORG[k]))
//@   requires event: 0 <= i && i < 300
//@   ensures row: split()
//@   ensures nomatch: !matched ==> g.NDIR[i] == old(g.NDIR[i]) && g.NH4N[i] == old(g.NH4N[i]) && g.NSAS[i] == old(g.NSAS[i]) && g.NLAS[i] == old(g.NLAS[i])
//@   ensures others: others()
//@   ensures quantity: l.DGMG == old(l.DGMG) && g.DGART == old(g.DGART)
//@ loop dueng#1
//@   invariant row: split()
//@   invariant nomatch: !matched ==> g.NDIR[i] == old(g.NDIR[i]) && g.NH4N[i] == old(g.NH4N[i]) && g.NSAS[i] == old(g.NSAS[i]) && g.NLAS[i] == old(g.NLAS[i])
//@   invariant others: others()
//@   invariant quantity: l.DGMG == old(l.DGMG) && g.DGART == old(g.DGART)

// ---------------------------------------------------------------------------
// C05  one field per configured column: every iteration of the column loop of WriteLine hands exactly one value to the
// line, for each of the five kinds of column reference the binder produces. That the reflective binder produces no
// other kind is an explicit ASSUMPTION (reflect is outside the verifier): the default arm is assumed unreachable.
//@ func OutputConfig.WriteLine
//@   serves C05
//@   ghost var fields int = 0
//@   at call outLine.Add: ghost fields = fields + 1
//@   before stmt "fmt.Println(\"unknown\")": assume supportedKinds: false
//@   ensures onepercolumn: fields == len(c.DataColumns)
//@ loop OutputConfig.WriteLine#1
//@   invariant count: fields == \i && 0 <= \i && \i <= len(c.DataColumns)

// ---------------------------------------------------------------------------
// C06  initial water content: every layer starts between wilting point and pore volume, saturated at and below the
// groundwater table (field capacity there was set to pore volume by setFieldCapacityWithGW just before)
//@ func Init
//@   serves C06, C15, C19, C05, C04
//@   cases g.GROUNDWATERFROM == Polygonfile
//@   cases g.GROUNDWATERFROM == GWTimeSeries
//@   requires layers: 1 <= g.N && g.N <= 20 && g.DZ.Num == 10
//@   requires startday: 1 <= g.ITAG && g.ITAG <= 366
//@   ensures[C05,C04] daybefore: g.TAG.Index == g.ITAG - 2 && g.TAG.Num == real(g.ITAG - 2 + g.TAG.Offset) && unchanged(g.ITAG)
//@   requires soil: forall(k, 0, g.N, 0 < g.WMIN[k] && g.WMIN[k] < g.W[k] && g.W[k] <= g.PORGES[k])
//@   requires level: g.GRW >= 0
//@   requires series: g.GROUNDWATERFROM == GWTimeSeries ==> validGW(g) && len(g.GWTimestamps) > 0 && forallint(d, indom(g.GWTimeSeriesValues, d) ==> g.GWTimeSeriesValues[d] >= 0)
//@   before stmt "g.TSOIL[0][0] = (g.TMIN[g.ITAG-1] + g.TMAX[g.ITAG-1]) / 2": assume levelProvedByRegionInitGwlevel: g.GRW >= 0
//@   after stmt "setFieldCapacityWithGW(g)": assert ordered0: forall(z, 0, g.N, g.WMIN[z] < g.W[z] && g.W[z] <= g.PORGES[z])
//@   ensures bounds: forall(z, 0, g.N, z != 10 ==> g.WMIN[z] <= g.WG[0][z] && g.WG[0][z] <= g.PORGES[z])
//@   ensures saturated: forall(z, 0, g.N, z != 10 && real(z+1) >= g.GRW ==> g.WG[0][z] == g.PORGES[z])
// (layer 11, index 10, is excluded: Init copies layer 10's start value into it unconditionally - a legacy boundary value
// for 10-layer profiles; for deeper profiles it overwrites that layer's own start value. Reading note F23, DESIGN section 12.)
//@   ensures ordered: forall(z, 0, g.N, g.WMIN[z] < g.W[z] && g.W[z] <= g.PORGES[z])
// C15: field capacity equals pore volume below the table of the level Init ENDS with (the level of the first day)
//@   ensures[C15] belowtable: forall(l, 1, g.N+1, l > floor(g.GRW + 1) ==> g.W[l-1] == g.PORGES[l-1])
// C19: the start profile lies between the start surface value and the lower-boundary temperature, and ends at the boundary
//@   ensures[C19] startprofile: forall(i, 0, g.N+1, min(g.TSOIL[0][0], g.TBASE) <= g.TSOIL[0][i] && g.TSOIL[0][i] <= max(g.TSOIL[0][0], g.TBASE))
//@   ensures[C19] boundary: g.TSOIL[0][g.N] == g.TBASE
//@   safety[C06] index
//@ loop Init#1
//@   invariant range: 1 <= \i && \i <= g.N+1
//@   invariant[C19] profile: forall(j, 1, \i, g.TSOIL[0][j] == g.TSOIL[0][0] - initp*real(j))
//@   invariant[C19] gradient: initp == (g.TSOIL[0][0] - g.TBASE)/real(g.N) && g.TSOIL[0][0] == pre(g.TSOIL[0][0])
//@ loop Init#2
//@   invariant range: 0 <= \i && \i <= g.N
//@   invariant bounds: forall(z, 0, \i, g.WMIN[z] <= g.WG[0][z] && g.WG[0][z] <= g.PORGES[z])
//@   invariant saturated: forall(z, 0, \i, real(z+1) >= g.GRW ==> g.WG[0][z] == g.PORGES[z])
//@   invariant frame: g.W == pre(g.W) && g.WMIN == pre(g.WMIN) && g.PORGES == pre(g.PORGES) && g.GRW == pre(g.GRW) && g.N == pre(g.N)

// the level Init starts from is not negative (assumed inside the unit Init above, proved here on the same statements):
// sinusoid GW - AMPL*sin(...) with GW >= |AMPL|, or a value of the series (all series values are not negative)
//@ region Init#gwlevel from "if g.GROUNDWATERFROM == Polygonfile {" to "if g.GROUNDWATERFROM == Polygonfile {"
//@   serves C06
//@   opaque GetGroundWaterLevel
//@   after stmt "g.GRW, _ = GetGroundWaterLevel(g, g.BEGINN-2)": assume seriesValuesNotNegative: g.GRW >= 0
//@   requires level: g.GRW >= 0 && g.GW - abs(g.AMPL) >= 0
//@   ensures nonneg: g.GRW >= 0

// ---------------------------------------------------------------------------
// C07  the fixation handed to the transport routine is TODAY's fixation of THIS crop (zero for a non-legume), and it is
// counted in the cumulative fixation; the uptake request of a day does not survive the day
//@ region PhytoOut#fixation from "if g.LEGUM { if DTGESN-SUMPE > 0.74*DTGESN {" to "g.NFIXSUM = g.NFIXSUM + g.NFIX"
//@   serves C07
//@   ensures handover: g.SCHNORR == g.NFIX
//@   ensures counted: g.NFIXSUM == old(g.NFIXSUM) + g.NFIX
//@   ensures nonlegume: !g.LEGUM ==> g.NFIX == 0 && g.SCHNORR == 0
//@   ensures legume: g.LEGUM ==> g.NFIX == ite(DTGESN - SUMPE > 0.74*DTGESN, 0.74*DTGESN, DTGESN - SUMPE)
//@ region HermesSession.Run$1#pereset from "for I := 1; I <= g.N; I++ { g.PE[I-1] = 0 }" to "if g.BART[0][0] == 'H' {"
//@   serves C07
//@   opaque Denitmo Denitr
//@   requires layers: 1 <= g.N && g.N <= 20
//@   after stmt "for I := 1; I <= g.N; I++ { g.PE[I-1] = 0 }": assert cleared: forall(z, 0, g.N, g.PE[z] == 0)
//@   ensures cleared: forall(z, 0, g.N, g.PE[z] == 0)
//@ loop HermesSession.Run$1@"for I := 1; I <= g.N; I++ { g.PE[I-1] = 0 }"
//@   invariant range: 1 <= \i && \i <= g.N + 1
//@   invariant cleared: forall(z, 0, \i - 1, g.PE[z] == 0)

// C20  the phase shift the sinusoid uses is the configured one (every value, including 0)
//@ region readConfig#gwphase from "g.GWPhase = hconfig.GroundWaterPhase" to "if len(hconfig.WeatherFolder) == 0 {"
//@   serves C20
//@   ensures configured: g.GWPhase == hconfig.GroundWaterPhase

// ---------------------------------------------------------------------------
// C10  reading the schedules: an event of the field is kept iff its date is not before the simulation start (an event dated
// ON the first simulated day is inside the period), with its date, quantity and kind in the slot under the count
// (Datum is the date converter of C12; the token texts are text layer: number(token) is the parsed value)
//@ region Input#fertkeep from "NDu++" to "if g.ZTDG[NDuindex] < g.BEGINN {"
//@   serves C10
//@   opaque DateConverter$1
//@   requires count: 0 <= NDu && NDu < 299
//@   ensures kept: NDu == old(NDu) + ite(valztdg >= g.BEGINN, 1, 0)
//@   ensures slot: valztdg >= g.BEGINN ==> g.ZTDG[NDu-1] == valztdg && g.DGART[NDu-1] == fertilizerToken[2] && l.DGMG[NDu-1] == ufreal("number", fertilizerToken[1])*g.DUNGSZEN
//@   ensures earlier: forall(k, 0, old(NDu), g.ZTDG[k] == old(g.ZTDG[k]) && g.DGART[k] == old(g.DGART[k]) && l.DGMG[k] == old(l.DGMG[k]))
//@ region Input#tillkeep from "NRTIL++" to "if g.EINTE[NRTIL] < g.BEGINN {"
//@   serves C10
//@   opaque DateConverter$1
//@   requires count: 0 <= NRTIL && NRTIL < 198
//@   ensures kept: NRTIL == old(NRTIL) + ite(valEinte >= g.BEGINN, 1, 0)
//@   ensures slot: valEinte >= g.BEGINN ==> g.EINTE[NRTIL] == valEinte && g.EINT[NRTIL-1] == ufreal("number", tilageTokens[1])
//@   ensures earlier: forall(k, 1, old(NRTIL)+1, g.EINTE[k] == old(g.EINTE[k])) && forall(k, 0, old(NRTIL), g.EINT[k] == old(g.EINT[k]) && g.TILART[k] == old(g.TILART[k]))
//@ region Input#irrkeep from "l.ANZBREG++" to "if g.ZTBR[l.ANZBREG-1] < g.BEGINN {"
//@   serves C10
//@   opaque DateConverter$1
//@   ghost var date int
//@   after call g.Datum: ghost date = res1
//@   requires count: 0 <= l.ANZBREG && l.ANZBREG < 499
//@   ensures kept: l.ANZBREG == old(l.ANZBREG) + ite(date >= g.BEGINN, 1, 0)
//@   ensures slot: date >= g.BEGINN ==> g.ZTBR[l.ANZBREG-1] == date && g.BREG[l.ANZBREG-1] == ufreal("number", SLAGtoken[1]) && g.BRKZ[l.ANZBREG-1] == ufreal("number", SLAGtoken[2])
//@   ensures earlier: forall(k, 0, old(l.ANZBREG), g.ZTBR[k] == old(g.ZTBR[k]) && g.BREG[k] == old(g.BREG[k]) && g.BRKZ[k] == old(g.BRKZ[k]))

// ---------------------------------------------------------------------------
// C04  multi-year layouts: a record is accepted only if it is the calendar day after the previously accepted record
// (py, pd: year and day of year of that record; the text layer - parsing of the date - is abstracted: Year(), YearDay(),
// Day(), Month() of the parsed date are consistent observers of an arbitrary date). Any other record ends reading with an
// error, so a file with a gap - inside a year, at the end of a year or of whole years - never loads.
//@ global define ydays(y) = ite(leap(y), 366, 365)
//@ global define nextday(py, pd, y, d) = (y == py && d == pd + 1) || (y == py + 1 && d == 1 && pd == ydays(py))
//@ region ReadWeatherCSV#nextrecord from "if first { first = false" to "if d.datetime.YearDay() != T {"
//@   serves C04
//@   ghost var py int
//@   ghost var pd int
//@   requires date: 1 <= d.datetime.YearDay() && d.datetime.YearDay() <= ydays(d.datetime.Year()) && iff(d.datetime.Day() == 1 && d.datetime.Month() == 1, d.datetime.YearDay() == 1)
//@   requires previous: !first ==> 1 <= yrz && yrz <= len(s.JAR) && s.JAR[yrz-1] == py && T == pd + 1 && 1 <= pd && pd <= ydays(py) && 1901 <= py && py <= 2099
//@   ensures consecutive: !old(first) ==> nextday(py, pd, d.datetime.Year(), d.datetime.YearDay())
//@   ensures index: T == d.datetime.YearDay() && !first
//@   ensures yearslot: yrz == ite(old(first), 1, ite(d.datetime.Year() == py, old(yrz), old(yrz) + 1))
//@   return-ensures error: !isnil(result0)
//@ region ReadWeatherCZ#nextrecord from "if first { first = false" to "if d.datetime.YearDay() != T {"
//@   serves C04
//@   ghost var py int
//@   ghost var pd int
//@   requires date: 1 <= d.datetime.YearDay() && d.datetime.YearDay() <= ydays(d.datetime.Year()) && iff(d.datetime.Day() == 1 && d.datetime.Month() == 1, d.datetime.YearDay() == 1)
//@   requires previous: !first ==> 1 <= yrz && yrz <= len(s.JAR) && s.JAR[yrz-1] == py && T == pd + 1 && 1 <= pd && pd <= ydays(py) && 1901 <= py && py <= 2099
//@   ensures consecutive: !old(first) ==> nextday(py, pd, d.datetime.Year(), d.datetime.YearDay())
//@   ensures index: T == d.datetime.YearDay() && !first
//@   ensures yearslot: yrz == ite(old(first), 1, ite(d.datetime.Year() == py, old(yrz), old(yrz) + 1))
//@   return-ensures error: !isnil(result0)
// the accepted record is stored in the slot of its year and its day of year, and becomes the "previous record" of the next
// iteration (year in JAR, day of year in MaxYearDays = T; the loop increments T before the next record is examined),
// which is the precondition `previous` of the region above
//@ region ReadWeatherCSV#store from "s.JAR[yrz-1] = d.datetime.Year()" to "s.MaxYearDays[yrz-1] = T"
//@   serves C04
//@   requires slot: 1 <= yrz && yrz <= len(s.JAR) && yrz <= len(s.MaxYearDays) && T == d.datetime.YearDay() && 1 <= T
//@   ensures year: s.JAR[yrz-1] == d.datetime.Year()
//@   ensures days: s.MaxYearDays[yrz-1] == d.datetime.YearDay()
//@   ensures record: s.TMP[yrz-1][T-1] == d.tavg && s.TMI[yrz-1][T-1] == d.tmin && s.TMA[yrz-1][T-1] == d.tmax && s.REG[yrz-1][T-1] == d.precip && s.RADI[yrz-1][T-1] == d.globrad && s.WIN[yrz-1][T-1] == d.wind && s.RELF[yrz-1][T-1] == d.relhumid
//@ region ReadWeatherCZ#store from "s.JAR[yrz-1] = d.datetime.Year()" to "s.MaxYearDays[yrz-1] = T"
//@   serves C04
//@   requires slot: 1 <= yrz && yrz <= len(s.JAR) && yrz <= len(s.MaxYearDays) && T == d.datetime.YearDay() && 1 <= T
//@   ensures year: s.JAR[yrz-1] == d.datetime.Year()
//@   ensures days: s.MaxYearDays[yrz-1] == d.datetime.YearDay()
//@   ensures record: s.TMP[yrz-1][T-1] == d.tavg && s.TMI[yrz-1][T-1] == d.tmin && s.TMA[yrz-1][T-1] == d.tmax && s.REG[yrz-1][T-1] == d.precip && s.RADI[yrz-1][T-1] == d.globrad && s.WIN[yrz-1][T-1] == d.wind && s.RELF[yrz-1][T-1] == d.relhumid

// ---------------------------------------------------------------------------
// Round-3 strengthening: places the properties depend on OUTSIDE their kernels (storage, conversion, initialisation)

// C15/C06  the backup the groundwater-change block restores from holds the parameters as they are BEFORE the initial
// saturation below the table, and the saturation only raises field capacity from the table layer downwards
//@ region Input#backup between "for L := 1; L <= g.AZHO; L++ { lindex := L - 1 AD, err := Hydro(" and "if !g.AUTOIRRI {"
//@   serves C15, C06
//@   requires layers: 1 <= g.N && g.N <= 20
//@   ensures backup: forall(i, 0, g.N, g.W_Backup[i] == old(g.W[i]) && g.WMIN_Backup[i] == old(g.WMIN[i]) && g.PORGES_Backup[i] == old(g.PORGES[i]) && g.WNOR_Backup[i] == old(g.WNOR[i]))
//@   ensures saturated: g.GW < real(g.N) ==> forall(i, 0, g.N, ite(real(i+1) >= g.GW + 0.5 && i+1 >= 1, g.W[i] == g.PORGES[i], g.W[i] == old(g.W[i]) || g.W[i] == g.PORGES[i]))
//@   ensures others: unchanged(g.WMIN, g.PORGES, g.WNOR)
//@ loop Input@"for i := 0; i < g.N; i++ { g.W_Backup[i] = g.W[i]"
//@   invariant range: 0 <= \i && \i <= g.N
//@   invariant backup: forall(i, 0, \i, g.W_Backup[i] == old(g.W[i]) && g.WMIN_Backup[i] == old(g.WMIN[i]) && g.PORGES_Backup[i] == old(g.PORGES[i]) && g.WNOR_Backup[i] == old(g.WNOR[i]))
//@   invariant frame: unchanged(g.W, g.WMIN, g.PORGES, g.WNOR, g.N)
//@ loop Input@"for l := maxVal; l <= g.N; l++ { index := l - 1 g.W[index] = g.PORGES[index]"
//@   invariant range: maxVal <= \i && (\i <= g.N + 1 || \i == maxVal) && maxVal >= 1
//@   invariant done: forall(i, 0, 21, ite(maxVal <= i+1 && i+1 < \i, g.W[i] == g.PORGES[i], g.W[i] == pre(g.W[i])))
//@   invariant frame: unchanged(g.WMIN, g.PORGES, g.WNOR, g.N) && g.W_Backup == pre(g.W_Backup)

// C19  the bulk density Soiltemp reads is the horizon's bulk density for EVERY layer, whatever the parameter route
//@ region Input#bulkdensity from "g.AD[LTindex] = AD" to "$end"
//@   serves C19
//@   opaque PTF1 PTF2 PTF3 PTF4 calcWRed
//@   ensures stored: g.BD[LTindex] == g.BULK[lindex]
//@   return-ensures error: !isnil(result0)

// C16  the line of the automatic-management table used for a rotation entry is the line of THAT crop (whole code)
//@ region Input#automanrow from "crpman := autoScanner.Text()" to "$end" within "if g.AUTOIRRI || g.AUTOFERT || g.AUTOHAR || g.AUTOMAN { autfil := hPath.auto"
//@   serves C16
//@   opaque DateConverter$1 dueng
//@   ghost var rowcrop int
//@   ghost var entered bool = false
//@   after call g.ToCropType: ghost rowcrop = res0
//@   before stmt "if g.AUTOMAN {": ghost entered = true
//@   requires entry: 0 <= SLFINDindex && SLFINDindex < 299
//@   exit-ensures owncropx: entered ==> rowcrop == old(g.FRUCHT[SLFINDindex])
//@ region Input#automanrow2 from "crpman := autoScanner.Text()" to "$end" within "if g.AUTOHAR || g.AUTOFERT { autfil := hPath.auto"
//@   serves C16
//@   opaque DateConverter$1 dueng
//@   ghost var rowcrop int
//@   ghost var entered bool = false
//@   after call g.ToCropType: ghost rowcrop = res0
//@   before stmt "if g.ODU[SLFINDindex] == 1 {": ghost entered = true
//@   requires entry: 0 <= SLFINDindex && SLFINDindex < 299
//@   exit-ensures owncropx: entered ==> rowcrop == old(g.FRUCHT[SLFINDindex])

// C18  at sowing the override is applied to the freshly read parameters, whichever crop file format was read
//@ region PhytoOut#override from "PARANAM := hPath.GetParanam(" before "if g.DAUERKULT && g.AKF.Num > 2"
//@   serves C18
//@   opaque ReadCropParamYml ReadCropParamClassic CropOverwrite.OverwriteCropParameters
//@   ghost var applied int = 0
//@   ghost var readers int = 0
//@   at call ReadCropParamYml: ghost readers = readers + 1
//@   at call ReadCropParamClassic: ghost readers = readers + 1
//@   ghost var calls int = 0
//@   at call g.CropOverwrite.OverwriteCropParameters: ghost applied = applied + ite(readers == 1, 1, 0)
//@   at call g.CropOverwrite.OverwriteCropParameters: ghost calls = calls + 1
//@   ensures readonce: readers == 1
//@   ensures afterread: applied == calls && calls <= 1
//@   ensures applied: !isnil(g.CropOverwrite) ==> applied == 1

// C09  root radius of every rooted layer is positive (the root length density divides by its square)
//@ region PhytoOut#rootradius from "WRAD := make([]float64, g.WURZ)" before "rFreshWeight := make([]float64, g.WURZ)"
//@   serves C09
// (a zero radius makes the root length density infinite and the uptake of that layer NaN, which Water cannot limit: C06)
//@   serves C06
//@   unroll-loops 41
//@   requires roots: 0 <= g.WURZ && g.WURZ <= 40 && 0 <= g.AKF.Index && g.AKF.Index < 300
//@   ensures positive: forall(j, 0, g.WURZ, WRAD[j] > 0)

// C10/C12  the effective configuration (file overlaid by the batch line) is what the model uses: fertilisation factor as
// a real fraction, the date converter with the EFFECTIVE century split, and the scalars copied one to one
//@ region readConfig#transfer from "g.GROUNDWATERFROM = hconfig.GroundWaterFrom" to "g.LangTag = LangTagConverter(hconfig.DivideCentury, g.DATEFORMAT)"
//@   serves C10, C12
//@   opaque DateConverter KalenderConverter LangTagConverter
//@   ghost var cent int
//@   ghost var centLang int
//@   at call DateConverter: ghost cent = arg0
//@   at call LangTagConverter: ghost centLang = arg0
//@   ensures[C10] factor: g.DUNGSZEN == real(hconfig.Fertilization)/100
//@   ensures[C12] century: cent == hconfig.DivideCentury && centLang == hconfig.DivideCentury
//@   ensures scalars: g.GROUNDWATERFROM == hconfig.GroundWaterFrom && g.DATEFORMAT == hconfig.Dateformat && g.ANJAHR == hconfig.StartYear && g.ETMETH == hconfig.ETpot && g.OUTN == hconfig.LeachingDepth && g.DEPOS == hconfig.NDeposition && g.LAT == hconfig.Latitude && g.ALTI == hconfig.Altitude

// C11  the session's file pool hands out, for a path, the content read from exactly that path and keeps every other
// path's entry as it was: two runs of a session that name different files never see each other's input
//@ func FilePool.Get
//@   serves C11
//@   ghost var readpath string
//@   ghost var reads int = 0
//@   at call os.ReadFile: ghost readpath = arg0
//@   at call os.ReadFile: ghost reads = reads + 1
//@   ensures ownfile: reads <= 1 && (reads == 1 ==> readpath == fd.FilePath)
//@   ensures cached: old(!isnil(fp.list) && indom(fp.list, fd.FilePath)) ==> reads == 0 && result0 == old(fp.list[fd.FilePath])
//@   ensures entry: indom(fp.list, fd.FilePath)
//@   ensures others: forallkey(k, fp.list, k != fd.FilePath ==> old(indom(fp.list, k)) && fp.list[k] == old(fp.list[k]))
//@   ensures kept: forallkey(k, old(fp.list), !old(isnil(fp.list)) ==> indom(fp.list, k))

// ---------------------------------------------------------------------------
// Round-4 strengthening

// C12  the text splitter of the date converter never rejects a text by the VALUES of its fields (which field is day and
// which is month depends on the format and is decided by the caller): a text of a fitting length is split into its
// three numbers, in written order
//@ func extractDate
//@   serves C12, C10, C04, C05, C16
//@   opaque ValAsInt
//@   ghost var k int = 0
//@   ghost var f1 int = 0
//@   ghost var f2 int = 0
//@   ghost var f3 int = 0
//@   at call ValAsInt: ghost k = k + 1
//@   after call ValAsInt: ghost f1 = ite(k == 1, res0, f1)
//@   after call ValAsInt: ghost f2 = ite(k == 2, res0, f2)
//@   after call ValAsInt: ghost f3 = ite(k == 3, res0, f3)
//@   ensures accepted: ((short && (len(date) == 6 || len(date) == 8)) || (!short && (len(date) == 8 || len(date) == 10))) ==> isnil(err)
//@   ensures fields: isnil(err) ==> k == 3 && first == f1 && second == f2 && third == f3
//@   modifies nothing

// C19  every KA5 bulk density class (1..5) of a soil file gets a bulk density inside the interval Soiltemp is proved for
//@ func SoilFileData.BulkDensityClassToDensity
//@   serves C19
//@   requires slot: 0 <= i && i < len(soildata.BULK) && i < len(soildata.LD)
//@   ensures admissible: 1 <= soildata.LD[i] && soildata.LD[i] <= 5 ==> 1.1 <= soildata.BULK[i] && soildata.BULK[i] <= 1.85
//@   ensures others: forall(j, 0, len(soildata.BULK), j != i ==> soildata.BULK[j] == old(soildata.BULK[j]))

// C11  the configuration object that receives the overrides of ONE batch line is owned by this call (a local of
// readConfig): nothing a later run of the session reads is written with this line's settings
//@ region readConfig#owned from "$start" before "g.GROUNDWATERFROM = hconfig.GroundWaterFrom"
//@   serves C11
//@   opaque FilePool.Get NewDefaultConfig
//@   ghost var owned bool = false
//@   ghost var calls int = 0
//@   at call commandlineOverride: ghost owned = ownedlocal(arg1)
//@   at call commandlineOverride: ghost calls = calls + 1
//@   ensures private: calls == 1 && owned

// C11  a run writes only its own result files: every result file opened is the file named by the corresponding field of
// the run's own path set (whose names carry the polygon id and the plot number of the batch line)
//@ region progout#ownfile after "if g.PROGNOS < g.ENDE {" to "fertFile := g.Session.OpenResultFile("
//@   serves C11
//@   ghost var opened string
//@   ghost var opens int = 0
//@   at call g.Session.OpenResultFile: ghost opened = arg0
//@   at call g.Session.OpenResultFile: ghost opens = opens + 1
//@   ensures own: opens == 1 && opened == hPath.fert
//@ region LoadManagementConfig#ownfile from "if anyOutPut := config.AnyOutputEnabled(); anyOutPut {" to "if anyOutPut := config.AnyOutputEnabled(); anyOutPut {"
//@   serves C11
//@   ghost var opened string
//@   ghost var opens int = 0
//@   at call session.OpenResultFile: ghost opened = arg0
//@   at call session.OpenResultFile: ghost opens = opens + 1
//@   ensures own: opens <= 1 && (opens == 1 ==> opened == hp.mnam)
//@ region HermesSession.Run$1#ownyearly from "pnamFile := session.OpenResultFile(" to "pnamFile := session.OpenResultFile("
//@   serves C11
//@   ghost var opened string
//@   at call session.OpenResultFile: ghost opened = arg0
//@   ensures own: opened == herPath.pnam
//@ region HermesSession.Run$1#owncrop from "CNAMfile := session.OpenResultFile(" to "CNAMfile := session.OpenResultFile("
//@   serves C11
//@   ghost var opened string
//@   at call session.OpenResultFile: ghost opened = arg0
//@   ensures own: opened == herPath.cnam
//@ region HermesSession.Run$1#owndaily from "VNAMfile = session.OpenResultFile(" to "VNAMfile = session.OpenResultFile("
//@   serves C11
//@   ghost var opened string
//@   at call session.OpenResultFile: ghost opened = arg0
//@   ensures own: opened == herPath.vnam
//@ region HermesSession.Run$1#ownpf from "pfFile = session.OpenResultFile(" to "pfFile = session.OpenResultFile("
//@   serves C11
//@   ghost var opened string
//@   at call session.OpenResultFile: ghost opened = arg0
//@   ensures own: opened == herPath.pfnam

// C20  the reader of the groundwater series reads the WHOLE file and stores one entry per record of the polygon:
// no record of the polygon is skipped, whatever the simulation period
//@ func ReadGroundWaterTimeSeries
//@   serves C20
//@   opaque HasPrefixWithSeperator Explode ValAsFloat HermesSession.Open
//@   ghost var more bool = true
//@   ghost var matches int = 0
//@   after call scanner.Scan: ghost more = res0
//@   after call HasPrefixWithSeperator: ghost matches = matches + ite(res0, 1, 0)
//@   ensures whole: isnil(result0) ==> !more
//@   ensures all: isnil(result0) ==> len(g.GWTimestamps) == matches
//@ loop ReadGroundWaterTimeSeries#1
//@   invariant count: len(g.GWTimestamps) == matches

// C09  the nitrogen stress factor of the day is a fraction: 1 at or above the critical N content, 0 at or below the
// content at which growth stops, in between whatever the two contents are
//@ region PhytoOut#nstress from "$liststart" before "g.REDUKSUM = g.REDUKSUM + g.REDUK"
//@   serves C09
//@   ensures fraction: 0 <= g.REDUK && g.REDUK <= 1
//@   ensures nostress: g.GEHOB >= g.GEHMIN ==> g.REDUK == 1

// C09  the N concentration of the roots stays non-negative through the end-of-day redistribution (for beet and potato
// the last block recomputes it from the shoot content just derived from it: in exact arithmetic the same value)
//@ region PhytoOut#rootn from "if g.WUMAS > WUMALT {" to "$end"
//@   serves C09
//@   requires state: g.WUGEH >= 0 && g.WUMAS > 0 && g.OBMAS + g.WORG[3] > 0 && g.OBMAS > 0
//@   requires crop: 0 <= g.AKF.Index && g.AKF.Index < 300 && 0 <= g.INTWICK.Index && g.INTWICK.Index < 10
//@   ensures rootn: g.WUGEH >= 0
//@   ensures kept: !(g.WUMAS > WUMALT) ==> g.WUGEH == old(g.WUGEH)

// C10  the irrigation reader goes through the WHOLE (shared) irrigation file: rows of the simulated field need not be
// one contiguous block (a file sorted by date across fields is read completely)
//@ region Input#irrwhole from "for SCHLAG, SLAGtoken, ok := NextLineInut(0, scannerIrrFile, strings.Fields); ok;" to "for SCHLAG, SLAGtoken, ok := NextLineInut(0, scannerIrrFile, strings.Fields); ok;"
//@   serves C10
//@   opaque NextLineInut ValAsFloat DateConverter$1
//@   ghost var more bool = true
//@   after call NextLineInut: ghost more = res2
//@   ensures whole: !more
//@ loop Input@"for SCHLAG, SLAGtoken, ok := NextLineInut(0, scannerIrrFile, strings.Fields); ok;"
//@   invariant last: more == ok
//@ loop Input@"for ok := SCHLAG == g.PKT; ok; ok = SCHLAG == g.PKT && valid {"
//@   invariant last: more == valid

// C10  "actions dated before the simulation start are ignored" for irrigation (defect F26: the reader compared the rows
// with a start that was not known yet): once the start is set, exactly the irrigations dated before it are dropped -
// for an ascending schedule the kept entries are the old ones from the first entry at or after the start on, in order
//@ region Input#irrstart from "g.BEGINN = g.ERNTE[0]" to "l.ANZBREG = keptIrrigations"
//@   serves C10
//@   define dropped() = old(l.ANZBREG) - l.ANZBREG
//@   requires count: 0 <= l.ANZBREG && l.ANZBREG <= 500
//@   requires ascending: forall(k, 1, l.ANZBREG, g.ZTBR[k-1] <= g.ZTBR[k])
//@   ensures start: g.BEGINN == old(g.ERNTE[0])
//@   ensures fromstart: forall(k, 0, l.ANZBREG, g.ZTBR[k] >= g.BEGINN)
//@   ensures count: 0 <= l.ANZBREG && l.ANZBREG <= old(l.ANZBREG)
//@   ensures droppedearly: forall(j, 0, dropped(), old(g.ZTBR)[j] < g.BEGINN)
//@   ensures kept: forall(k, 0, l.ANZBREG, g.ZTBR[k] == old(g.ZTBR)[k + dropped()] && g.BREG[k] == old(g.BREG)[k + dropped()] && g.BRKZ[k] == old(g.BRKZ)[k + dropped()])
//@   ensures cleared: forall(k, l.ANZBREG, old(l.ANZBREG), g.ZTBR[k] == 0 && g.BREG[k] == 0 && g.BRKZ[k] == 0)
//@ loop Input@"for i := 0; i < l.ANZBREG; i++ { if g.ZTBR[i] >= g.BEGINN {"
//@   invariant range: 0 <= \i && \i <= l.ANZBREG && 0 <= keptIrrigations && keptIrrigations <= \i && unchanged(l.ANZBREG) && g.BEGINN == old(g.ERNTE[0])
//@   invariant last: keptIrrigations > 0 ==> \i >= 1 && old(g.ZTBR[\i-1]) >= g.BEGINN
//@   invariant sorted: forall(k, 1, old(l.ANZBREG), old(g.ZTBR[k-1]) <= old(g.ZTBR[k]))
//@   invariant prefix: forall(j, 0, \i - keptIrrigations, old(g.ZTBR[j]) < g.BEGINN)
//@   invariant suffix: forall(j, \i - keptIrrigations, \i, old(g.ZTBR[j]) >= g.BEGINN)
//@   invariant moved: forall(k, 0, keptIrrigations, g.ZTBR[k] == old(g.ZTBR)[k + \i - keptIrrigations] && g.BREG[k] == old(g.BREG)[k + \i - keptIrrigations] && g.BRKZ[k] == old(g.BRKZ)[k + \i - keptIrrigations])
//@   invariant rest: forall(k, \i, 500, g.ZTBR[k] == old(g.ZTBR[k]) && g.BREG[k] == old(g.BREG[k]) && g.BRKZ[k] == old(g.BRKZ[k]))
//@ loop Input@"for i := keptIrrigations; i < l.ANZBREG; i++ { g.ZTBR[i], g.BREG[i], g.BRKZ[i] = 0, 0, 0"
//@   invariant range: keptIrrigations <= \i && (\i <= l.ANZBREG || \i == keptIrrigations) && unchanged(l.ANZBREG)
//@   invariant zero: forall(k, keptIrrigations, \i, g.ZTBR[k] == 0 && g.BREG[k] == 0 && g.BRKZ[k] == 0)
//@   invariant head: forall(k, 0, keptIrrigations, g.ZTBR[k] == pre(g.ZTBR[k]) && g.BREG[k] == pre(g.BREG[k]) && g.BRKZ[k] == pre(g.BRKZ[k]))

// ---------------------------------------------------------------------------
// Composition in the day loop of Run (modular: a caller is checked against the contracts of the regions and routines it
// runs, not their bodies). The run constants (layer count, layer thickness, time step, leaching depth, drain factor, ET
// method, the soil-parameter backup) and the calendar state that the regions of the day loop and the routines called from
// it REQUIRE are established ONCE, at loop entry, and shown to be preserved by everything the loop body does: each
// contracted region is replaced by "assert its preconditions, havoc what its real statements may write, assume its
// postconditions" (`uses`), each routine by its inferred write set with the named preconditions asserted at the call
// (`establishes`). What is proved here is therefore no longer an entry assumption of those units; what remains assumed is
// this unit's own precondition (the state Input/readConfig/Init/the first weather year leave behind) - listed once.
//@ region HermesSession.Run$1#dayglue from "for ZEIT := g.BEGINN; ZEIT <= g.ENDE; ZEIT = ZEIT + g.DT.Index {" to "for ZEIT := g.BEGINN; ZEIT <= g.ENDE; ZEIT = ZEIT + g.DT.Index {"
//@   serves C01, C02, C04, C05, C06, C07, C08, C10, C15, C16, C20
//@   opaque KalenderDate LoadYear WetterK GetGroundWaterLevel Hydro calcWRed setFieldCapacityWithGW Evatra Soiltemp Water PhytoOut Nitro Denitmo Denitr GlobalVarsMain.setIrrigation KalenderConverter$1 DateConverter$1
//@   define consts() = 1 <= g.N && g.N <= 20 && g.DZ.Num == 10 && g.DZ.Index == 10 && g.DT.Num == 1 && g.DT.Index == 1 && 0 <= g.OUTN && g.OUTN <= g.N && 0 <= g.DRAIFAK && g.DRAIFAK <= 1 && 1 <= g.ETMETH && g.ETMETH <= 5
//@   define caldr() = 0-1 <= g.TAG.Index && g.TAG.Index + 1 <= g.JTAG && g.JTAG <= 366 && g.TAG.Offset == 1 && g.TAG.Num == real(g.TAG.Index + g.TAG.Offset)
//@   define backups() = forall(z, 0, g.N, 0 < g.WMIN_Backup[z] && g.WMIN_Backup[z] < g.W_Backup[z] && g.W_Backup[z] <= g.PORGES_Backup[z] && g.PORGES_Backup[z] < 1)
// (thickness and the offset of the day counter are established by the run's prologue: unit Run$1 below)
//@   requires thickness: g.DZ.Num == 10 && g.DZ.Index == 10
//@   requires offsets: g.TAG.Offset == 1
//@   requires consts: consts()
//@   requires calendar: caldr()
//@   requires backup: backups()
//@   requires[C08,C06] leafarea: g.LAI >= 0
//@   uses HermesSession.Run$1#calendar: step day
//@   uses HermesSession.Run$1#gwchange: layers backup
//@   uses HermesSession.Run$1#irrigation: day
//@   uses HermesSession.Run$1#deposition: units
//@   uses HermesSession.Run$1#substeps: layers units day outn drain leafarea
//@   uses HermesSession.Run$1#pereset: layers
//@   uses HermesSession.Run$1#measured: -
// C10 (in full): what Nitro has put into the fertiliser pools on a day is still there at the end of that day - nothing the
// day loop does after the sub-step loop (denitrification, output, annual reset, forecast hooks) takes it away again
//@   ghost var dsumAfter real
//@   ghost var nh4After real
//@   after stmt "for SUBD := 1; SUBD <= int(STEPS); SUBD++ {": ghost dsumAfter = g.DSUMM
//@   after stmt "for SUBD := 1; SUBD <= int(STEPS); SUBD++ {": ghost nh4After = g.NH4Sum
//@   before stmt "if ZEIT == g.ENDE {": assert[C10,C07] keptinfull: g.DSUMM == dsumAfter && g.NH4Sum == nh4After
//@   uses HermesSession.Run$1#autoirr: day units
//@   establishes Evatra: layers units day method leafarea
//@   establishes Denitmo: day
// the number of days of the year LoadYear has just loaded comes from the weather store (text layer): assumed once, here
//@   after stmt "if g.TAG.Num == g.DT.Num {": assume yearlength: g.TAG.Index + 1 <= g.JTAG && g.JTAG <= 366
// (the fertiliser forecast loads a weather year of its own through the same loader)
//@   after stmt "if ZEIT == g.PROGNOS {": assume forecastyearlength: g.TAG.Index + 1 <= g.JTAG && g.JTAG <= 366
//@ loop HermesSession.Run$1@"for ZEIT := g.BEGINN; ZEIT <= g.ENDE; ZEIT = ZEIT + g.DT.Index {"
//@   invariant consts: consts()
//@   invariant calendar: caldr()
//@   invariant backup: backups()
//@   invariant[C08,C06] leafarea: g.LAI >= 0

// measured start values (Nmin sampling date): the state is overwritten by the measurement and the balance terms restart -
// applied and dissolved fertiliser TOGETHER (a pool that restarts alone leaves more dissolved than applied); on every
// other day the block touches nothing
//@ region HermesSession.Run$1#measured from "if ZEIT == g.MESS[g.MZ-1] {" to "if ZEIT == g.MESS[g.MZ-1] {"
//@   serves C07, C10
//@   define due() = ZEIT == old(g.MESS[g.MZ-1])
//@   requires fert: g.UMS <= g.DSUMM && g.NH4UMS <= g.NH4Sum
// C06: a layer's water content is replaced only by a MEASURED (positive) value; layers without a measured value keep theirs
// (one measurement date per plot: the arrays hold one measured profile)
//@   serves C06
//@   requires[C06] single: g.MZ == 1
//@   ensures[C06] measuredwater: forall(z, 0, 21, g.WG[1][z] == old(g.WG[1][z]) || g.WG[1][z] > 0) && g.WG[0] == old(g.WG[0])
//@   ensures[C07] dissolved: g.UMS <= g.DSUMM && g.NH4UMS <= g.NH4Sum
//@   ensures[C07,C10] restart: due() ==> g.DSUMM == 0 && g.UMS == 0
//@   ensures[C07,C10] otherdays: !due() ==> unchanged(g.DSUMM, g.UMS, g.NH4Sum, g.NH4UMS, g.C1, g.WG, g.MZ, g.OUTSUM, g.SICKER, g.CAPSUM)
//@   ensures pools: unchanged(g.NAOS, g.NFOS, g.MINAOS, g.MINFOS)
//@ loop HermesSession.Run$1@"for Z := 1; Z <= g.N+1; Z++ { Zindex := Z - 1 g.C1[Zindex] = g.CN[g.MZ][Zindex]"
//@   invariant[C06] measuredwater: forall(z, 0, 21, g.WG[1][z] == old(g.WG[1][z]) || g.WG[1][z] > 0) && g.WG[0] == old(g.WG[0]) && g.WG[2] == old(g.WG[2]) && g.MZ == 1
//@   invariant frame: unchanged(g.DSUMM, g.UMS, g.NH4Sum, g.NH4UMS, g.NAOS, g.NFOS, g.MINAOS, g.MINFOS, g.OUTSUM, g.SICKER, g.CAPSUM, g.MZ)

// C09  gross photosynthesis: the effective day length the light-use formulas divide by is positive whenever the sun rises
// (north of ~58.6 degrees the effective day length is 0 on days whose astronomical day length is still positive), and so
// is the assimilation rate at light saturation
//@ func radia
//@   serves C09
//@   before stmt "REFLC := .08": assert[C09] effectiveday: DLE > 0 && amax > 0

// CSV soil reader, one horizon record (C15: the stone content of the file is percent - the layer parameters are scaled by
// 1 - stone fraction, which must stay positive; C19: every horizon gets a bulk density - the explicit value of the file
// or, when the cell is empty or the column absent, the density of its class; C20: the level of the soil file is used
// exactly when the configuration says so)
//@ region LoadSoilCSV#horizon from "soildata.BART[i] = tokens[header[texture]]" to "soildata.STEIN[i] = ValAsFloat(tokens[header[stone]]"
//@   serves C15, C19
//@   opaque VerifyAndCorrectTexture SoilFileData.cNSetup
//@   requires slot: 0 <= i && i < 10
//@   ensures[C15,C19] stonepercent: soildata.STEIN[i] == ufreal("number", tokens[header[stone]])/100
//@   ensures[C19] density: 1 <= soildata.LD[i] && soildata.LD[i] <= 5 ==> soildata.BULK[i] == ufreal("number", tokens[header[bulkdensity]]) || (1.1 <= soildata.BULK[i] && soildata.BULK[i] <= 1.85)
//@   return-ensures errorpath: !isnil(result1)
//@ region LoadSoilCSV#gwsource between "soildata.WURZMAX = int(ValAsInt(tokens[header[rootdepth]]" and "soildata.DRAIDEP = int(ValAsInt(tokens[header[drainagedepth]]"
//@   serves C20
//@   ensures configured: soildata.useGroundwaterFromSoilfile == withGroundwater
//@   ensures untouched: !withGroundwater ==> unchanged(soildata.GRHI, soildata.GRLO, soildata.GRW, soildata.GW)
//@   return-ensures errorpath: !isnil(result1)

// C10 / C16  the crop rotation reader goes through the WHOLE (shared) rotation file: the lines of the simulated field need
// not be one contiguous block (a regional file kept season by season is read completely, every entry of the field is
// scheduled)
//@ region Input#rotwhole from "for SCHLAG, ROtoken, valid := NextLineInut(hSchlag, scannerRotation, splitLine); valid;" to "for SCHLAG, ROtoken, valid := NextLineInut(hSchlag, scannerRotation, splitLine); valid;"
//@   serves C10, C16
//@   opaque NextLineInut ValAsFloat ValAsInt DateConverter$1 dueng LineInut HermesSession.Open GlobalVarsMain.ToCropType
//@   ghost var more bool = true
//@   after call NextLineInut: ghost more = res2
//@   ensures whole: !more
//@   return-ensures errorpath: !isnil(result0)
//@ loop Input@"for SCHLAG, ROtoken, valid := NextLineInut(hSchlag, scannerRotation, splitLine); valid;"
//@   invariant last: more == valid
//@ loop Input@"for ok := SCHLAG == g.PKT; ok; ok = SCHLAG == g.PKT && valid { SLFIND++"
//@   invariant last: more == valid

// C18  what a crop parameter reader stores: every overridable base parameter as the same function of the file's number
// that OverwriteCropParameters applies to the number on the batch line (the root velocity is the file value / 200 in both),
// and NOTHING beyond the listed fields (frame): a quantity derived from the parameters at read time that the override
// does not re-derive (as it does for the total temperature sum) would make an overridden run differ from a run on the
// edited file. Text parsing and yaml decoding are external (any numbers).
//@ global define regrowth(g) = g.DAUERKULT && g.AKF.Num > 2 && g.FRUCHT[g.AKF.Index] == g.FRUCHT[g.AKF.Index-1]
//@ func ReadCropParamYml
//@   serves C18
// a perennial that follows itself keeps its state: the readers and the override skip the initial N concentrations under
// the SAME condition (OverwriteCropParameters: INITCONCNBIOM / INITCONCNROOT), otherwise both store value/100
//@   ensures[C18] regrowthkeeps: regrowth(g) ==> g.GEHOB == old(g.GEHOB) && g.WUGEH == old(g.WUGEH)
//@   ensures[C18] firststand: !regrowth(g) ==> g.GEHOB == cropParam.INITCONCNBIOM/100 && g.WUGEH == cropParam.INITCONCNROOT/100
//@   ensures base: g.MAXAMAX == cropParam.MAXAMAX && g.MINTMP == cropParam.MINTMP && g.WUMAXPF == cropParam.WUMAXPF && g.VELOC == cropParam.VELOC/200 && g.YIFAK == cropParam.YIFAK
//@   modifies g.ASIP, g.BAS, g.BLUET, g.DAUERKULT, g.DAYL, g.DEAD, g.DEV, g.DLBAS, g.DOUBLE, g.DRYSWELL, g.ENDPRO, g.GEHOB, g.LAIFKT, g.LEGUM, g.LUKRIT, g.MAIRT, g.MAXAMAX, g.MINTMP, g.NGEFKT, g.NRKOM, g.PHYLLO, g.PRO, g.REIF, g.RGA, g.RGB, g.SUM, g.SubOrgan, g.TROOTSUM, g.TSUM, g.VELOC, g.VERNTAGE, g.VSCHWELL, g.WDORG, g.WGMAX, g.WORG, g.WUGEH, g.WUMAXPF, g.YIFAK, g.YORGAN, l.AboveGroundOrgans, l.ENDBBCH, l.NRENTW, l.kc, l.kcini, l.temptyp, l.tendsum, l.useBBCH
//@ func ReadCropParamClassic
//@   serves C18
//@   ghost var fAmax real
//@   ghost var fMintmp real
//@   ghost var fWumaxpf real
//@   ghost var fVeloc real
//@   after call ValAsFloat#1: ghost fAmax = res0
//@   after call ValAsFloat#2: ghost fMintmp = res0
//@   after call ValAsFloat#3: ghost fWumaxpf = res0
//@   after call ValAsFloat#4: ghost fVeloc = res0
//@   ensures base: g.MAXAMAX == fAmax && g.MINTMP == fMintmp && g.WUMAXPF == fWumaxpf && g.VELOC == fVeloc/200
//@   ensures[C18] regrowthkeeps: regrowth(g) ==> g.GEHOB == old(g.GEHOB) && g.WUGEH == old(g.WUGEH)
//@   modifies g.ASIP, g.BAS, g.BLUET, g.DAUERKULT, g.DAYL, g.DEAD, g.DEV, g.DLBAS, g.DOUBLE, g.DRYSWELL, g.ENDPRO, g.GEHOB, g.LAIFKT, g.LEGUM, g.LUKRIT, g.MAIRT, g.MAXAMAX, g.MINTMP, g.NGEFKT, g.NRKOM, g.PHYLLO, g.PRO, g.REIF, g.RGA, g.RGB, g.SUM, g.SubOrgan, g.TROOTSUM, g.TSUM, g.VELOC, g.VERNTAGE, g.VSCHWELL, g.WDORG, g.WGMAX, g.WORG, g.WUGEH, g.WUMAXPF, g.YIFAK, g.YORGAN, l.AboveGroundOrgans, l.ENDBBCH, l.NRENTW, l.kc, l.kcini, l.temptyp, l.tendsum, l.useBBCH

// C20  the groundwater source of the configuration file: the mode is looked up under EXACTLY the configured word (the table
// of spellings is case sensitive - "gwTimeSeries" -; a normalised key silently selects another mode, i.e. another level)
//@ func GroundWaterFrom.UnmarshalYAML
//@   serves C20
//@   ensures exact: isnil(result0) ==> *s == toID[j]

// C16  the automatic sowing window: day and month from the crop's row of the automatic-management file, the YEAR of the
// sowing date of the rotation entry (a window end composed with the harvest year lies a year late for every winter crop:
// the forced sowing at the end of the window never happens in the sowing year)
//@ region Input#sowwindow from "sat1 := crpman[4:8] + SAT[4:]" to "g.SAAT[SLFINDindex] = 0"
//@   serves C16
//@   opaque ValAsFloat DateConverter$1
//@   ghost var w1 string
//@   ghost var w2 string
//@   after stmt "_, g.SAAT1[SLFINDindex] = g.Datum(": ghost w1 = sat1
//@   after stmt "_, g.SAAT2[SLFINDindex] = g.Datum(": ghost w2 = sat2
//@   ensures begin: w1 == crpman[4:8] + SAT[4:]
//@   ensures end: w2 == crpman[9:13] + SAT[4:]
//@   ensures pending: g.SAAT[SLFINDindex] == 0

// C09  the seasonal water-stress mean of the crop record (Nitro divides the sum by harvest - sowing): one call of PhytoOut
// (= one day) contributes at most ONE sample of the day's transpiration ratio, which lies in [0,1] (Evatra/post:trrel...),
// whatever stage changes happen inside the call; the sum restarts at sowing. Whole function, loops cut by their write sets.
//@ func PhytoOut
//@   serves C09
//@   opaque CropOverwrite.OverwriteCropParameters vern ReadCropParamYml ReadCropParamClassic radia CalculateDayLenght
//@   requires ratio: 0 <= g.TRREL && g.TRREL <= 1 && g.TRRELSUM >= 0
// the leaf area index never leaves PhytoOut negative (the organ loop is used through its region contract)
//@   serves C08
//@   requires[C08,C09] leafarea: g.LAI >= 0
//@   uses PhytoOut#organs: lai
//@   ensures[C08,C09] leafarea: g.LAI >= 0
//@   ensures[C09] onesample: g.TRRELSUM >= 0 && g.TRRELSUM <= old(g.TRRELSUM) + 1

// Nitro (harvest, residues) never makes the leaf area index negative (it is reset to 0 at harvest)
//@ func Nitro
//@   serves C08, C09
//@   opaque dueng mineral nmove KalenderDate Denitr Denitmo
//@   ensures[C08,C09] leafarea: old(g.LAI) >= 0 ==> g.LAI >= 0

// C05  one field per configured column, binder side: EVERY configured column leaves the binding loop of
// LoadHermesOutputConfig with a column reference - the address of the model variable, or the not-available value when the
// name, sub-name or an array index cannot be resolved - on every path through the loop body (goto, continue). A column
// without reference reaches the default arm of WriteLine and contributes no field. What the reflect calls return is
// arbitrary for the verifier; only the control flow of the loop body is decided here.
//@ region LoadHermesOutputConfig#bind from "dataCol := &outConfig.DataColumns[i]" to "$end"
//@   serves C05
//@   ghost var bound bool = false
//@   after stmt "dataCol.valueRef = f.Addr().Interface()": ghost bound = true
//@   after stmt "dataCol.valueRef = outConfig.NotAvailableValue": ghost bound = true
//@   exit-ensures everycolumn: bound

// The fresh run state: layer thickness 10 cm, time step 1 day (both as number and as index), day counter and crop cursor
// with offset 1, wind measurement height 2 m, leaf area 0 - the part of the day loop's entry assumptions that does not
// come from input files.
//@ func NewGlobalVarsMain
//@   serves C01, C02, C06, C08
//@   ensures units: result0.DZ.Num == 10 && result0.DZ.Index == 10 && result0.DT.Num == 1 && result0.DT.Index == 1
//@   ensures cursors: result0.TAG.Offset == 1 && result0.AKF.Offset == 1 && result0.AKF.Index == 0 && result0.INTWICK.Offset == 1 && result0.DT.Offset == 0
//@   ensures site: result0.WINDHI == 2 && result0.LAI == 0 && result0.N == 20

// From the fresh run state to the day loop: nothing between the creation of the run state and the day loop (configuration,
// Input, the first weather year, Init, the output configurations) writes the layer thickness or the time step, so the day
// loop starts with the units every kernel requires (Run$1#dayglue/requires consts, units part). Callees by their inferred
// write sets.
//@ region HermesSession.Run$1#prologue from "g := NewGlobalVarsMain()" before "for ZEIT := g.BEGINN; ZEIT <= g.ENDE; ZEIT = ZEIT + g.DT.Index {"
//@   serves C01, C02, C06, C08
//@   opaque readConfig Input Init LoadYear WetterK ReadWeatherCSV ReadWeatherCZ verdun KalenderDate DateConverter$1 KalenderConverter$1 LoadManagementConfig ParseCropOverwrites NewHermesFilePath
//@   ensures thickness: g.DZ.Num == 10 && g.DZ.Index == 10
//@   ensures offsets: g.TAG.Offset == 1 && g.AKF.Offset == 1 && g.DT.Offset == 0

// The column binder receives the run state as interface{} and walks it by reflection: it takes ADDRESSES of model
// variables (read later by WriteLine) and writes none of them. Frame ASSUMED (reflect is outside the verifier; listed).
//@ func LoadHermesOutputConfig
//@   serves C01, C02, C06, C08
//@   trusted
//@   modifies nothing

// the time step of a run is one day: set by Input (whole-function verification of Input costs minutes of write-set
// fixpoints, so the day loop's `DT == 1` stays an entry assumption there; the statement that sets it is pinned here)
//@ region Input#timestep from "g.DT.SetByIndex(1)" to "g.DT.SetByIndex(1)"
//@   serves C01, C02, C06, C08
//@   requires offset: g.DT.Offset == 0
//@   ensures oneday: g.DT.Index == 1 && g.DT.Num == 1

// The run body as a whole: the prologue's postconditions are what the day loop's composition unit requires of the layer
// thickness and the day counter's offset (both units used modularly: this unit only checks that they fit together).
//@ func HermesSession.Run$1
//@   serves C01, C02, C06, C08
//@   uses HermesSession.Run$1#prologue
//@   uses HermesSession.Run$1#dayglue: thickness offsets
//@   opaque FinalDungPrognose progout

// the classic (fixed-width) soil reader, same clauses as the CSV reader: stone content is percent, every horizon gets the
// density of its class, the soil file's groundwater level is used exactly when the configuration says so
//@ region LoadSoil#horizon from "soildata.BART[i] = bodenLine[9:12]" to "soildata.STEIN[i] = ValAsFloat(bodenLine[18:20]"
//@   serves C15, C19
//@   opaque VerifyAndCorrectTexture SoilFileData.cNSetup
//@   requires slot: 0 <= i && i < 10
//@   ensures[C15,C19] stonepercent: soildata.STEIN[i] == ufreal("number", bodenLine[18:20])/100
//@   ensures[C19] density: 1 <= soildata.LD[i] && soildata.LD[i] <= 5 ==> 1.1 <= soildata.BULK[i] && soildata.BULK[i] <= 1.85
//@   return-ensures errorpath: !isnil(result1)
//@ region LoadSoil#gwsource between "soildata.WURZMAX = int(ValAsInt(" and "soildata.DRAIDEP = int(ValAsInt("
//@   serves C20
//@   ensures configured: soildata.useGroundwaterFromSoilfile == withGroundwater
//@   ensures untouched: !withGroundwater ==> unchanged(soildata.GRHI, soildata.GRLO, soildata.GRW, soildata.GW)
//@   return-ensures errorpath: !isnil(result1)

// the number of 10 cm layers a soil reader hands on is between 1 and 20 (the capacity every per-layer loop of the kernels
// relies on): a profile outside that range fails the run with an error
//@ region LoadSoil#layers from "soildata.N = soildata.UKT[soildata.AZHO]" to "if soildata.N > 20 || soildata.N < 1 {"
//@   serves C01, C02, C06
//@   ensures layers: 1 <= soildata.N && soildata.N <= 20
//@   return-ensures errorpath: !isnil(result1)
//@ region LoadSoilCSV#layers from "soildata.N = soildata.UKT[soildata.AZHO]" to "if soildata.N > 20 || soildata.N < 1 {"
//@   serves C01, C02, C06
//@   ensures layers: 1 <= soildata.N && soildata.N <= 20
//@   return-ensures errorpath: !isnil(result1)
// ... and Input takes exactly that number (and the drain parameters) over into the run state
//@ region Input#soilcopy from "g.SoilID = currentSoil.SoilID" to "g.DRAIFAK = currentSoil.DRAIFAK"
//@   serves C01, C02, C06
//@   requires layers: 1 <= currentSoil.N && currentSoil.N <= 20
//@   ensures layers: 1 <= g.N && g.N <= 20 && g.N == currentSoil.N
//@   ensures drain: g.DRAIDEP == currentSoil.DRAIDEP && g.DRAIFAK == currentSoil.DRAIFAK
//@   ensures minerdepth: g.IZM <= g.N * g.DZ.Index || g.IZM == old(g.IZM)

// C04  the one-file-per-year weather reader, one record: the record's day of year is the successor of the previous record's
// (a gap ends the run with an error), and every value of the record is stored in the slot of THAT day, column by column
// (columns: mean, minimum, maximum temperature, ET0, relative humidity, evaporation, wind, sunshine, radiation, precipitation,
// day of year)
//@ region WetterK#record from "WETTER := scanner.Text()" to "$end"
//@   serves C04
// (the year length it stores drives the calendar of the day loop - yearly records C05, day of year of the groundwater
// sinusoid C20 - and a gap in the weather data is one of the reported error classes C11)
//@   serves C05, C20, C11
//@   opaque Explode
//@   define num(k) = ufreal("number", Wettin[k])
//@   ensures consecutive: T == old(Tlast) + 1 && Tlast == T && Tindex == T - 1
//@   ensures sameday: s.TMP[0][T-1] == num(0) && s.TMI[0][T-1] == num(1) && s.TMA[0][T-1] == num(2) && s.RELF[0][T-1] == num(4) && s.WIN[0][T-1] == num(6) && s.RADI[0][T-1] == num(8) && s.REG[0][T-1] == num(9)
//@   ensures optional: s.ETNULL[0][T-1] == num(3) && s.VERD[0][T-1] == num(5) && s.SUND[0][T-1] == num(7)
//@   ensures length: s.MaxYearDays[0] == T
//@   return-ensures errorpath: !isnil(result0)

// C16  the latest harvest date of the automatic harvest: day and month from the crop's row of the automatic-management
// file, the YEAR of the harvest date of the rotation entry
//@ region Input#harvestwindow from "har2 := crpman[14:18]" to "g.ERNTE[SLFINDindex] = 0"
//@   serves C16
//@   opaque ValAsFloat DateConverter$1
//@   ghost var lh string
//@   after stmt "_, g.ERNTE2[SLFINDindex] = g.Datum(": ghost lh = har2
//@   ensures latest: lh == crpman[14:18] + ERNT[4:]
//@   ensures pending: g.ERNTE[SLFINDindex] == 0

// C11  termination of the schedule readers: the inner "rows of this field" loops of Input and of the measured-values reader
// re-test the CURRENT line; they end because every pass through their body - on every path, including `continue` - reads
// the next line (the files are finite: NextLineInut reports the end). A path that reaches the loop test again without
// having read a line spins forever on the same line.
//@ region Input#irrprogress from "l.ANZBREG++" to "$end"
//@   serves C11
//@   opaque NextLineInut ValAsFloat DateConverter$1
//@   ghost var advanced bool = false
//@   after call NextLineInut: ghost advanced = true
//@   exit-ensures progress: advanced
//@ region Input#rotprogress from "SLFIND++" to "$end"
//@   serves C11
//@   opaque NextLineInut ValAsFloat ValAsInt DateConverter$1 dueng LineInut HermesSession.Open GlobalVarsMain.ToCropType
//@   ghost var advanced bool = false
//@   after call NextLineInut: ghost advanced = true
//@   exit-ensures progress: advanced
//@   return-ensures errorpath: !isnil(result0)
//@ region Input#fertprogress from "NDu++" to "$end"
//@   serves C11
//@   opaque NextLineInut ValAsFloat DateConverter$1
//@   ghost var advanced bool = false
//@   after call NextLineInut: ghost advanced = true
//@   exit-ensures progress: advanced
//@ region Input#tillprogress from "NRTIL++" to "$end"
//@   serves C11
//@   opaque NextLineInut ValAsFloat ValAsInt DateConverter$1
//@   ghost var advanced bool = false
//@   after call NextLineInut: ghost advanced = true
//@   exit-ensures progress: advanced
//@ region ExtractMeasuredDataTxt#progress from "g.NMESS++" to "$end"
//@   serves C11
//@   opaque NextLineInut ValAsFloat DateConverter$1
//@   ghost var advanced bool = false
//@   after call NextLineInut: ghost advanced = true
//@   exit-ensures progress: advanced

// C07  harvest residues: what the residue helper hands to the organic pools (fast and slow shares of shoot and root
// residues) is never negative, whatever the crop state (a perennial cut below the stubble mass has NO shoot residue) -
// for a fast-decomposing share of the residue table between 0 and 1
//@ func resid
//@   serves C07
//@   opaque ValAsFloat GlobalVarsMain.ToCropType HermesSession.Open
//@   ghost var fast real
//@   before stmt "NSA = DGM * NFAST": ghost fast = NFAST
//@   ensures nonneg: 0 <= fast && fast <= 1 ==> NSA >= 0 && NLA >= 0 && NUSA >= 0 && NULA >= 0 && NRESID >= 0 && NDI == 0

// C16  crop codes outside the built-in list: a code seen for the first time in a run gets the next free id AFTER the ids
// already given out in this run (so two user-defined crops of one rotation never share an id), and is remembered
//@ func GlobalVarsMain.ToCropType
//@   serves C16
//@   ghost var key string
//@   before stmt "newCropType := numSysCrops": ghost key = trimSpaces
//@   before stmt "newCropType := numSysCrops": assert unknown: !indom(g.CropTypeLookup, trimSpaces)
//@   after stmt "newCropType := numSysCrops": assert[C16] nextfree: newCropType == numSysCrops + len(g.CropTypeLookup) + 1
//@   after stmt "g.CropTypeLookup[trimSpaces] = newCropType": assert[C16] remembered: g.CropTypeLookup[key] == newCropType && indom(g.CropTypeLookup, key)

// C10  organic fertiliser of a rotation entry under automatic management: the fertiliser table is consulted for THE ENTRY
// whose kind and quantity were just stored (dueng works on the slot it is given: dueng/post:row, others), for the
// preceding crop (entry 0) as for every later entry
// (for the PRECEDING crop, entry 0, Input consults the table for slot 1 - `dueng(SLFIND, ...)` - so the amounts of slot 0 are
// never computed; a clause demanding slot 0 failed on the unchanged tree, but on the real simulator the effect could not be
// separated from the residue bookkeeping that also uses slot 0 - with and without the one-token repair the organic pools
// gain the same 18 kg N/ha on the day after the start - so it is NOT claimed and stays a reading note, F31)
//@ region Input#entryorg from "g.DGART[SLFINDindex] = strings.TrimSpace(crpman[143:146])" to "$end" within "if g.AUTOIRRI || g.AUTOFERT || g.AUTOHAR || g.AUTOMAN { autfil := hPath.auto"
//@   serves C10
//@   opaque dueng ValAsFloat ValAsInt
//@   ghost var slot int = 0-1
//@   at call dueng: ghost slot = arg0
//@   ensures ownslot: slot == SLFINDindex
