//go:build verif

// Contracts for package hermes (comment-only file; build tag verif).
// Checked by /verif/bin/hvc against the real function bodies on every run.
// Syntax: see /verif/DESIGN.md section 2.2.

package hermes

// ---------------------------------------------------------------------------
// Spec functions written from the calendar (not from the code), 1901..2099.
//@ global define leap(y) = y % 4 == 0
//@ global define mdays(y, m) = ite(m == 2, ite(leap(y), 29, 28), ite(m == 4 || m == 6 || m == 9 || m == 11, 30, 31))
//@ global define cum(y, m) = ite(m > 1, 31, 0) + ite(m > 2, ite(leap(y), 29, 28), 0) + ite(m > 3, 31, 0) + ite(m > 4, 30, 0) + ite(m > 5, 31, 0) + ite(m > 6, 30, 0) + ite(m > 7, 31, 0) + ite(m > 8, 31, 0) + ite(m > 9, 30, 0) + ite(m > 10, 31, 0) + ite(m > 11, 30, 0)
//@ global define doy(y, m, d) = cum(y, m) + d
//@ global define daynumber(y, m, d) = 365*(y-1901) + tdiv(y-1901, 4) + doy(y, m, d)
//@ global define validDate(y, m, d) = 1901 <= y && y <= 2099 && 1 <= m && m <= 12 && 1 <= d && d <= mdays(y, m)

// ---------------------------------------------------------------------------
// C12  date conversion

//@ func KalenderDate
//@   serves C12
//@   requires domain: 1 <= MASDAT && MASDAT <= 72684
//@   ensures valid: validDate(year, month, day)
//@   ensures inverse: daynumber(year, month, day) == MASDAT
//@ loop KalenderDate#1
//@   unroll 12

//@ func DateConverter$1
//@   serves C12
//@   opaque extractDate
//@   ensures masdat: validDate(1900+YR, MON, TG) ==> masDat == daynumber(1900+YR, MON, TG)
//@   ensures doy: validDate(1900+YR, MON, TG) ==> ztDat == doy(1900+YR, MON, TG)
//@ loop DateConverter$1#1
//@   unroll 12

// Lemmas over the two contracts and the calendar spec functions only: together with
// KalenderDate/post:{valid,inverse} and DateConverter$1/post:{masdat,doy} they give the
// statement of C12 (bijection, order, day-of-year, leap rule).
//@ lemma C12-injective
//@   serves C12
//@   var y1 int
//@   var m1 int
//@   var d1 int
//@   var y2 int
//@   var m2 int
//@   var d2 int
//@   assume validDate(y1, m1, d1) && validDate(y2, m2, d2)
//@   assume daynumber(y1, m1, d1) == daynumber(y2, m2, d2)
//@   prove same: y1 == y2 && m1 == m2 && d1 == d2
//@ lemma C12-range
//@   serves C12
//@   var y int
//@   var m int
//@   var d int
//@   assume validDate(y, m, d)
//@   prove lo: 1 <= daynumber(y, m, d)
//@   prove hi: daynumber(y, m, d) <= 72684
//@   prove first: daynumber(1901, 1, 1) == 1
//@   prove last: daynumber(2099, 12, 31) == 72684
//@ lemma C12-successor
//@   serves C12
//@   var y int
//@   var m int
//@   var d int
//@   assume validDate(y, m, d) && !(y == 2099 && m == 12 && d == 31)
//@   prove sameMonth: d < mdays(y, m) ==> daynumber(y, m, d+1) == daynumber(y, m, d) + 1
//@   prove nextMonth: d == mdays(y, m) && m < 12 ==> daynumber(y, m+1, 1) == daynumber(y, m, d) + 1
//@   prove nextYear: d == mdays(y, m) && m == 12 ==> daynumber(y+1, 1, 1) == daynumber(y, m, d) + 1
//@ lemma C12-order
//@   serves C12
//@   var y1 int
//@   var m1 int
//@   var d1 int
//@   var y2 int
//@   var m2 int
//@   var d2 int
//@   assume validDate(y1, m1, d1) && validDate(y2, m2, d2)
//@   assume y1 < y2 || (y1 == y2 && (m1 < m2 || (m1 == m2 && d1 < d2)))
//@   prove lt: daynumber(y1, m1, d1) < daynumber(y2, m2, d2)
//@ lemma C12-yearlength
//@   serves C12
//@   var y int
//@   assume 1901 <= y && y <= 2099
//@   prove len: doy(y, 12, 31) == ite(y % 4 == 0, 366, 365)
//@   prove feb: mdays(y, 2) == ite(y % 4 == 0, 29, 28)

// Rendering: which numbers are handed to the formatter, per format (the formatter itself is text layer).
//@ func KalenderConverter$1
//@   serves C12
//@   ghost var a0 int
//@   ghost var a1 int
//@   ghost var a2 int
//@   at call fmt.Sprintf: ghost a0 = arg1
//@   at call fmt.Sprintf: ghost a1 = arg2
//@   at call fmt.Sprintf: ghost a2 = arg3
//@   requires domain: 1 <= MASDAT && MASDAT <= 72684
//@   ensures date: validDate(year, month, day) && daynumber(year, month, day) == MASDAT
//@   ensures delong: format == DateDElong ==> a0 == day && a1 == month && a2 == year
//@   ensures enlong: format == DateENlong ==> a0 == month && a1 == day && a2 == year
//@   ensures deshort: format == DateDEshort ==> a0 == day && a1 == month && a2 == (year - 1900) % 100
//@   ensures enshort: format == DateENshort ==> a0 == month && a1 == day && a2 == (year - 1900) % 100


// ---------------------------------------------------------------------------
// C20  groundwater level from a time series
// validGW: timestamps strictly ascending and positive; the map's domain is exactly the set of timestamps
// (tsindex is the inverse of the timestamp list, an uninterpreted witness function).
//@ global define validGW(g) = forall(i, 0, len(g.GWTimestamps), forall(j, i+1, len(g.GWTimestamps), g.GWTimestamps[i] < g.GWTimestamps[j])) &&
//@   |  forall(i, 0, len(g.GWTimestamps), g.GWTimestamps[i] > 0 && ufint("tsindex", g.GWTimestamps[i]) == i) &&
//@   |  forallint(d, iff(indom(g.GWTimeSeriesValues, d), 0 <= ufint("tsindex", d) && ufint("tsindex", d) < len(g.GWTimestamps) && g.GWTimestamps[ufint("tsindex", d)] == d))

//@ func GetGroundWaterLevel
//@   serves C20
//@   define n() = len(g.GWTimestamps)
//@   define ts(i) = g.GWTimestamps[i]
//@   define val(d) = g.GWTimeSeriesValues[d]
//@   define has(d) = indom(g.GWTimeSeriesValues, d)
//@   requires series: validGW(g)
//@   ensures hit: has(date) ==> result0 == val(date) && isnil(result1)
//@   ensures interp: forall(j, 0, n()-1, ts(j) < date && date < ts(j+1) ==>
//@   |   result0 == val(ts(j)) + (val(ts(j+1)) - val(ts(j)))/real(ts(j+1)-ts(j))*real(date - ts(j)) && isnil(result1))
//@   ensures before: n() > 0 && date < ts(0) ==> result0 == val(ts(0)) && isnil(result1)
//@   ensures after: n() > 0 && date > ts(n()-1) ==> result0 == val(ts(n()-1)) && isnil(result1)
//@   ensures error: iff(!isnil(result1), n() == 0 && !has(date))
//@   modifies nothing
//@ loop GetGroundWaterLevel#1
//@   invariant range: 0 <= \i && \i <= n()
//@   invariant none: nextDate == 0 && !has(date)
//@   invariant below: forall(j, 0, \i, ts(j) < date)
//@   invariant prev: prevDate == ite(\i == 0, 0, ts(\i-1))

// "hence between the two values": consequence of GetGroundWaterLevel/post:interp, as a lemma over its formula.
//@ lemma C20-between
//@   serves C20
//@   var a real
//@   var b real
//@   var p int
//@   var d int
//@   var q int
//@   assume p < d && d < q
//@   prove lo: min(a, b) <= a + (b - a)/real(q - p)*real(d - p)
//@   prove hi: a + (b - a)/real(q - p)*real(d - p) <= max(a, b)

// daily update of the level inside the day loop of Run (closure Run$1)
//@ region HermesSession.Run$1#gw from "oldGrW := g.GRW" to "if g.GROUNDWATERFROM == Polygonfile {"
//@   serves C20
//@   define n() = len(g.GWTimestamps)
//@   define ts(i) = g.GWTimestamps[i]
//@   define val(d) = g.GWTimeSeriesValues[d]
//@   define has(d) = indom(g.GWTimeSeriesValues, d)
//@   safety[C20] nofatal
//@   requires mean: g.GW == real(g.GRLO+g.GRHI)/2 && g.AMPL == real(g.GRLO-g.GRHI)/2
//@   requires series: g.GROUNDWATERFROM == GWTimeSeries ==> n() > 0
//@   requires valid: validGW(g)
//@   ensures interval: g.GROUNDWATERFROM == Polygonfile ==> min(real(g.GRHI), real(g.GRLO)) <= g.GRW && g.GRW <= max(real(g.GRHI), real(g.GRLO))
//@   ensures aroundmean: g.GROUNDWATERFROM == Polygonfile ==> abs(g.GRW - real(g.GRLO+g.GRHI)/2) <= abs(real(g.GRLO-g.GRHI)/2)
//@   ensures phase: g.GROUNDWATERFROM == Polygonfile ==> g.GRW == g.GW - g.AMPL*m_sin((g.TAG.Num+real(g.GWPhase))*math.Pi/180)
//@   ensures hit: g.GROUNDWATERFROM == GWTimeSeries && has(ZEIT) ==> g.GRW == val(ZEIT)
//@   ensures before: g.GROUNDWATERFROM == GWTimeSeries && ZEIT < ts(0) ==> g.GRW == val(ts(0))
//@   ensures after: g.GROUNDWATERFROM == GWTimeSeries && ZEIT > ts(n()-1) ==> g.GRW == val(ts(n()-1))
//@   ensures interp: g.GROUNDWATERFROM == GWTimeSeries ==> forall(j, 0, n()-1, ts(j) < ZEIT && ZEIT < ts(j+1) ==>
//@   |   g.GRW == val(ts(j)) + (val(ts(j+1)) - val(ts(j)))/real(ts(j+1)-ts(j))*real(ZEIT - ts(j)))
//@   ensures frame: unchanged(g.GW, g.AMPL, g.GRLO, g.GRHI, g.GWTimestamps, g.GWTimeSeriesValues)

// mean and amplitude from the two levels of the polygon file (Input)
//@ region Input#gwpoly from "g.GRHI = int(ValAsInt(tokens[3]" to "g.AMPL = float64(g.GRLO-g.GRHI) / 2"
//@   serves C20
//@   ensures mean: g.GW == real(g.GRLO+g.GRHI)/2 && g.AMPL == real(g.GRLO-g.GRHI)/2 && g.GRW == g.GW

// ---------------------------------------------------------------------------
// C19  soil temperature envelope
// lo/hi: envelope of the temperatures present before the call (ghost); s: the surface value imposed today.
//@ func Soiltemp
//@   serves C19
//@   ghost var lo real
//@   ghost var hi real
//@   define s() = g.TSOIL[1][0]
//@   define elo() = min(lo, s())
//@   define ehi() = max(hi, s())
//@   define inenv(v) = elo() <= v && v <= ehi()
//@   requires layers: 2 <= g.N && g.N <= 20
//@   requires steps: g.DT.Num == 1 && g.DZ.Num == 10
//@   requires tag: 0 <= g.TAG.Index && g.TAG.Index < 366
//@   requires bd: forall(i, 0, g.N, 0.5667 <= g.BD[i] && g.BD[i] <= 2.3)
//@   requires humus: forall(i, 0, g.N, 0 <= g.HUMUS[i] && g.HUMUS[i] <= 1)
//@   requires water: forall(i, 0, g.N, 0 <= g.WG[0][i] && g.WG[0][i] <= 1)
//@   requires envelope: lo <= hi && lo <= g.TBASE && g.TBASE <= hi && forall(i, 0, g.N+1, lo <= g.TSOIL[0][i] && g.TSOIL[0][i] <= hi)
//@   ensures profile: forall(i, 0, g.N+1, inenv(g.TSOIL[0][i]))
//@   ensures means: forall(i, 0, g.N+1, inenv(g.TD[i]))
//@   ensures base: g.TSOIL[0][g.N] == g.TBASE
//@   ensures capacity: forall(i, 0, g.N, g.HEATCAP[i] > 0)
//@   ensures diffusion: forall(i, 0, g.N, 0 <= g.HEATCOND[i]/g.HEATCAP[i]*g.DT.Num/24/(g.DZ.Num*g.DZ.Num) && g.HEATCOND[i]/g.HEATCAP[i]*g.DT.Num/24/(g.DZ.Num*g.DZ.Num) <= 0.5)
//@   modifies g.ALBEDO, g.TSOIL, g.HEATCOND, g.HEATCAP, g.TDSUM, g.TD
//@   safety[C19] div index
//@ loop Soiltemp#1
//@   invariant range: 0 <= \i && \i <= g.N
//@   invariant cap: forall(j, 0, \i, g.HEATCAP[j] > 0 && 0 <= g.HEATCOND[j] && g.HEATCOND[j] <= 1200*g.HEATCAP[j])
//@   invariant sums: forall(j, 0, \i, g.TDSUM[j] == 0)
//@ loop Soiltemp#2
//@   invariant range: 0 <= \i && \i <= 24
//@   invariant env: forall(j, 0, g.N+1, inenv(g.TSOIL[0][j]))
//@   invariant bounds: g.TSOIL[1][0] == pre(g.TSOIL[1][0]) && g.TSOIL[1][g.N] == g.TBASE && g.TSOIL[0][g.N] == g.TBASE
//@   invariant sums: forall(j, 0, g.N-1, real(\i)*elo() <= g.TDSUM[j] && g.TDSUM[j] <= real(\i)*ehi())
//@   invariant td0: \i > 0 ==> g.TD[0] == s()
//@ loop Soiltemp#3
//@   invariant range: 1 <= \i && \i <= g.N
//@   invariant new: forall(j, 1, \i, inenv(g.TSOIL[1][j]))
//@   invariant old: forall(j, 0, g.N+2, g.TSOIL[0][j] == pre(g.TSOIL[0][j]))
//@   invariant bounds: g.TSOIL[1][0] == pre(g.TSOIL[1][0]) && g.TSOIL[1][g.N] == pre(g.TSOIL[1][g.N])
//@   invariant sumsdone: forall(j, 0, \i-1, real(std+1)*elo() <= g.TDSUM[j] && g.TDSUM[j] <= real(std+1)*ehi())
//@   invariant sumsrest: forall(j, \i-1, g.N-1, g.TDSUM[j] == pre(g.TDSUM[j]))
//@ loop Soiltemp#4
//@   invariant range: 0 <= \i && \i <= g.N+1
//@   invariant copied: forall(j, 0, \i, g.TSOIL[0][j] == g.TSOIL[1][j])
//@   invariant new: forall(j, 0, g.N+2, g.TSOIL[1][j] == pre(g.TSOIL[1][j]))
//@ loop Soiltemp#5
//@   invariant range: 1 <= \i && \i <= g.N
//@   invariant means: forall(j, 1, \i, inenv(g.TD[j]))
//@   invariant first: g.TD[0] == pre(g.TD[0])
//@ loop Soiltemp#6
//@   invariant range: 1 <= \i && \i <= g.N+1
//@   invariant set: forall(j, 1, \i, g.TSOIL[0][j] == g.TD[j])
//@   invariant rest: forall(j, \i, g.N+2, g.TSOIL[0][j] == pre(g.TSOIL[0][j])) && g.TSOIL[0][0] == pre(g.TSOIL[0][0])
//@   invariant surface: g.TSOIL[1][0] == pre(g.TSOIL[1][0])
