package hermes

import (
	"math"
	"testing"
)

// A TSUM override must leave the crop in the state the reader produces for a file with the same edit:
// the readers set tendsum to the sum of the stage temperature sums.
func TestF6TsumOverrideKeepsTotal(t *testing.T) {
	g := &GlobalVarsMain{}
	l := &CropSharedVars{}
	l.NRENTW = 3
	g.NRKOM = 4
	g.TSUM[0], g.TSUM[1], g.TSUM[2] = 100, 200, 300
	l.tendsum = 600
	for s := 0; s < 3; s++ {
		g.PRO[s][0] = 1
	}
	g.AKF = DualType{Index: 1, Num: 2}
	ow := &CropOverwrite{CropFile: "PARAM.X", BaseFloatParameters: map[string]float64{},
		DevelopmentStageParameters: map[string]map[int]float64{"TSUM": {2: 500}},
		PartitioningParameters:     map[string]map[PartPair]float64{}}
	ow.OverwriteCropParameters("/some/dir/PARAM.X", g, l)
	want := g.TSUM[0] + g.TSUM[1] + g.TSUM[2]
	if g.TSUM[1] != 500 {
		t.Fatalf("override not applied: TSUM[1] = %v", g.TSUM[1])
	}
	if math.Abs(l.tendsum-want) > 1e-9 {
		t.Fatalf("total temperature sum is stale: tendsum = %v, sum of stages = %v", l.tendsum, want)
	}
}
