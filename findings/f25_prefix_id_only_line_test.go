package hermes

import "testing"

// A line of the groundwater series file that consists of the polygon id only (a truncated or trailing line) made
// HasPrefixWithSeperator index one past the end of the line: the run crashed with "index out of range" instead of
// skipping the line. After the fix such a line is simply not a record of the polygon.
func TestF25IdOnlyLineDoesNotPanic(t *testing.T) {
	defer func() {
		if r := recover(); r != nil {
			t.Fatalf("HasPrefixWithSeperator(\"12\", \"12\") panics: %v", r)
		}
	}()
	if HasPrefixWithSeperator("12", "12") {
		t.Errorf("a line without any field after the id is accepted as a record")
	}
	if !HasPrefixWithSeperator("12,2001-01-01,8", "12") {
		t.Errorf("a regular record is rejected")
	}
}
