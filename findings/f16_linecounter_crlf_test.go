package main

import (
	"strings"
	"testing"
)

// The calculator must count the lines hermes2go will execute: non-empty lines, LF or CRLF endings.
func TestF16LineCounterCRLF(t *testing.T) {
	for _, tc := range []struct {
		file string
		want uint64
	}{
		{"run1\r\n\r\nrun2\r\n", 2}, // CRLF file with a blank line
		{"\r\nrun1\n", 1},           // leading blank CRLF line
		{"run1\nrun2\n", 2},
	} {
		got, err := lineCounter(strings.NewReader(tc.file))
		if err != nil || got != tc.want {
			t.Errorf("file %q: counted %d lines, hermes2go executes %d", tc.file, got, tc.want)
		}
	}
}
