package hermes

import (
	"math"
	"testing"
)

// N fixation of the day (SCHNORR = NFIX, credited to NFIXSUM once per day by the crop model) must enter the crop N
// content PESUM exactly once per day, whatever the number of sub-steps.
func TestF13FixationOncePerDay(t *testing.T) {
	for _, steps := range []int{1, 2, 4, 8} {
		g := &GlobalVarsMain{}
		l := &NitroSharedVars{}
		g.N = 10
		g.DZ = DualType{Index: 10, Num: 10}
		g.OUTN = 10
		for i := 0; i <= g.N; i++ {
			g.WG[0][i] = 0.3
			g.W[i] = 0.3
			g.C1[i] = 20
			g.AD[min(i, 19)] = 0.002
		}
		g.C1stabilityVal = -1
		g.SAAT[0] = 50
		g.ERNTE2[0] = 200
		g.SCHNORR = 2.0
		before := g.PESUM
		for subd := 1; subd <= steps; subd++ {
			nmove(1/float64(steps), subd, 100, g, l)
		}
		got := g.PESUM - before
		if math.Abs(got-2.0) > 1e-9 {
			t.Errorf("%d sub-steps: crop N gained %.3f kg N/ha from a daily fixation of 2.0", steps, got)
		}
	}
}
