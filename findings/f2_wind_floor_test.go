package hermes

import "testing"

// The documented normalisation floors every day's wind speed at 0.5 m/s.
func TestF2WindFloorEveryDay(t *testing.T) {
	s := NewWeatherDataShared(2, 360)
	s.MaxYearDays[0], s.MaxYearDays[1] = 365, 365
	for y := 0; y < 2; y++ {
		for i := 0; i < 365; i++ {
			s.WIN[y][i] = 0.1
		}
	}
	corr := [12]float64{1, 1, 1, 1, 1, 1, 1, 1, 1, 1, 1, 1}
	s.transformWeatherData(2, corr[:])
	low := 0
	for y := 0; y < 2; y++ {
		for i := 0; i < 365; i++ {
			if s.WIN[y][i] < 0.5 {
				low++
			}
		}
	}
	if low > 0 {
		t.Fatalf("%d of 730 days keep a wind speed below the floor of 0.5 m/s", low)
	}
}
