package hermes

import (
	"math"
	"testing"
)

// The number of sub-steps of a day is computed in float64 from the sub-step length 1/ceil(ZSR). Before the fix it was
// int(DT/WDT), which loses one sub-step whenever the quotient rounds just below the integer (first: 93 steps -> 92,
// 1.08 % of that day's surface flux is never applied). The statements are those of the day loop in run.go.
func TestF9SubStepCountCoversTheDay(t *testing.T) {
	DT := 1.0
	lost := 0
	first := 0
	for n := 1; n <= 100000; n++ {
		WDT := 1 / math.Ceil(float64(n))
		// before the fix: steps := int(DT / WDT)
		steps := int(math.Round(DT / WDT))
		if steps != n {
			lost++
			if first == 0 {
				first = n
			}
		}
		if int(DT/WDT) != n && n == 93 {
			t.Logf("int(DT/WDT) for 93 sub-steps gives %d", int(DT/WDT))
		}
	}
	if lost > 0 {
		t.Fatalf("%d step counts below 100000 lose a sub-step (first: %d)", lost, first)
	}
}
