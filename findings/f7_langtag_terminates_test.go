package hermes

import (
	"testing"
	"time"
)

// The day-length search of the fertiliser forecast (14 h and 16 h days) must end at every latitude.
// Before the fix the second search never ended below about 48.8 degrees (the day never reaches 16 h),
// the first one never below about 31 degrees.
func TestF7LangTagTerminatesAtAnyLatitude(t *testing.T) {
	for _, lat := range []float64{52.5, 48.0, 45.0, 30.0, 0.0, -35.0, 70.0} {
		done := make(chan [3]int, 1)
		go func() {
			tag, p1, p2 := LangTagConverter(50, DateDElong)(lat, "----------", 100)
			done <- [3]int{tag, p1, p2}
		}()
		select {
		case r := <-done:
			if r[0] < 0 || r[0] > 366 {
				t.Errorf("latitude %v: day of year %d out of range", lat, r[0])
			}
		case <-time.After(3 * time.Second):
			t.Fatalf("latitude %v: day-length search did not end within 3 s", lat)
		}
	}
}
