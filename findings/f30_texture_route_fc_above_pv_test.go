package hermes

import (
	"bufio"
	"os"
	"path/filepath"
	"strings"
	"testing"
)

// F30 (C15, known finding): texture table route, ALL textures of HYPAR.TRU (adapted from the demonstration of seeded change C15-13):
// for every sandy texture of HYPAR.TRU, every bulk density class 1..5, a range of
// organic carbon contents and groundwater depths, the parameters delivered by the
// real Hydro() must be ordered: 0 < wilting point < field capacity <= pore volume < 1.
// The layer values are then derived exactly as Input()/Run() do
// (W = FELDW*(1-STEIN), WMIN = LIM*(1-STEIN), PORGES = PRGES*(1-STEIN)).
func TestF30_TextureRouteFieldCapacityNotAbovePoreVolume(t *testing.T) {
	param, err := filepath.Abs(filepath.Join("..", "examples", "parameter"))
	if err != nil {
		t.Fatal(err)
	}
	hPath := HFilePath{
		hypar:  filepath.Join(param, "HYPAR.TRU"),
		parcap: filepath.Join(param, "PARCAP.TRU"),
	}
	// all sandy textures listed in the table
	f, err := os.Open(hPath.hypar)
	if err != nil {
		t.Fatal(err)
	}
	var textures []string
	sc := bufio.NewScanner(f)
	sc.Scan() // header
	for sc.Scan() {
		line := sc.Text()
		if len(line) >= 3 && strings.TrimSpace(line[0:3]) != "" {
			textures = append(textures, strings.ToUpper(line[0:3]))
		}
	}
	f.Close()
	if len(textures) < 10 {
		t.Fatalf("only %d sandy textures found", len(textures))
	}

	session := NewHermesSession()
	defer session.Close()

	corgs := []float64{0.3, 0.8, 1.5, 3.0, 5.0, 6.0, 9.0}
	gws := []float64{5, 15, 25, 35}
	stones := []float64{0, 0.2}
	checked, bad := 0, 0
	for _, tex := range textures {
		for ld := 1; ld <= 5; ld++ {
			for _, c := range corgs {
				for _, gw := range gws {
					g := NewGlobalVarsMain()
					g.Session = session
					g.AZHO = 2 // horizon 1 is not the last one: capillary rise table is not needed
					g.N = 12
					g.UKT[0], g.UKT[1], g.UKT[2] = 0, 3, 12
					g.BART[0], g.BART[1] = tex, tex
					g.LD[0], g.LD[1] = ld, ld
					g.CGEHALT[0], g.CGEHALT[1] = c, c
					g.GRW, g.GW = gw, gw
					var l InputSharedVars
					if _, err := Hydro(1, &g, &l, &hPath); err != nil {
						t.Fatalf("%s LD%d: %v", tex, ld, err)
					}
					for _, st := range stones {
						w := g.FELDW[0] * (1 - st)
						wmin := g.LIM[0] * (1 - st)
						porges := g.PRGES[0] * (1 - st)
						checked++
						if !(0 < wmin && wmin < w && w <= porges+1e-12 && porges < 1) {
							bad++
							if bad <= 8 {
								t.Errorf("texture %q LD=%d Corg=%.1f%% GW=%.0fdm stones=%.0f%%: not ordered: WP=%.4f FC=%.4f PV=%.4f (want 0 < WP < FC <= PV < 1)",
									tex, ld, c, gw, st*100, wmin, w, porges)
							}
						}
					}
				}
			}
		}
	}
	t.Logf("checked %d parameter sets, %d not ordered", checked, bad)
	if bad > 0 {
		t.Errorf("C15 violated: %d of %d parameter sets of the texture table route are not physically ordered", bad, checked)
	}
}
