package hermes

import (
	"fmt"
	"os"
	"path/filepath"
	"testing"
	"time"
)

// A multi-year weather file with a gap must not load. Before the fix the CSV and CZ readers only compared the running
// day counter with the day of year, so two kinds of gap went unnoticed: a year that ends early (31 December missing:
// the counter is simply reset on 1 January) and a jump to the same day of a later year. The run then rolled over
// early or used a year's data under another year.
func writeF24CSV(t *testing.T, dates []time.Time) string {
	dir := t.TempDir()
	p := filepath.Join(dir, "w.csv")
	s := "iso-date,tmin,tavg,tmax,precip,globrad,wind,relhumid\n-,C,C,C,mm,MJ,ms,%\n"
	for _, d := range dates {
		s += fmt.Sprintf("%s,1,2,3,0,5,2,80\n", d.Format("2006-01-02"))
	}
	os.WriteFile(p, []byte(s), 0o644)
	return p
}

func f24Days(from, to string) []time.Time {
	a, _ := time.Parse("2006-01-02", from)
	b, _ := time.Parse("2006-01-02", to)
	var out []time.Time
	for d := a; !d.After(b); d = d.AddDate(0, 0, 1) {
		out = append(out, d)
	}
	return out
}

func f24Load(t *testing.T, dates []time.Time) error {
	g := NewGlobalVarsMain()
	g.Session = NewHermesSession()
	s := NewWeatherDataShared(5, 350)
	cfg := NewDefaultConfig()
	cfg.WeatherNumHeader = 2
	return ReadWeatherCSV(writeF24CSV(t, dates), 2009, &g, &s, &HFilePath{}, &cfg)
}

func TestF24WeatherGapAtYearEndIsAnError(t *testing.T) {
	complete := f24Days("2009-01-01", "2011-12-31")
	if err := f24Load(t, complete); err != nil {
		t.Fatalf("complete series rejected: %v", err)
	}
	// 31 December 2009 missing
	var noDec31 []time.Time
	for _, d := range complete {
		if !(d.Year() == 2009 && d.YearDay() == 365) {
			noDec31 = append(noDec31, d)
		}
	}
	if err := f24Load(t, noDec31); err == nil {
		t.Errorf("series without 31.12.2009 was loaded without error")
	}
	// jump from 1 March 2009 to 2 March 2010
	jump := append(f24Days("2009-01-01", "2009-03-01"), f24Days("2010-03-02", "2011-12-31")...)
	if err := f24Load(t, jump); err == nil {
		t.Errorf("series jumping from 01.03.2009 to 02.03.2010 was loaded without error")
	}
	// a whole year missing
	skip := append(f24Days("2009-01-01", "2009-12-31"), f24Days("2011-01-01", "2011-12-31")...)
	if err := f24Load(t, skip); err == nil {
		t.Errorf("series without the year 2010 was loaded without error")
	}
}
