package hermes

import (
	"math"
	"testing"
)

func TestF12DrainBalance(t *testing.T) {
	g := &GlobalVarsMain{}
	l := &NitroSharedVars{}
	g.N = 10
	g.DZ = DualType{Index: 10, Num: 10}
	g.OUTN = 10
	g.DRAIDEP = 5
	g.QDRAIN = 0.3
	g.FLUSS0 = 1.0
	for i := 0; i <= g.N; i++ {
		g.WG[0][i] = 0.3
		g.W[i] = 0.3
		g.C1[i] = 20
		g.AD[min(i, 19)] = 0.002
	}
	// downward flux into the drain layer, upward flux (capillary rise) through its lower boundary
	for z := 1; z <= g.N; z++ {
		if z < 5 {
			g.Q1[z] = 0.5
		} else {
			g.Q1[z] = -0.1
		}
	}
	g.DV = 4
	g.C1stabilityVal = -1
	sum0 := 0.0
	for i := 0; i < g.N; i++ {
		sum0 += g.C1[i]
	}
	out0, dl0 := g.OUTSUM, g.DRAINLOSS
	nmove(1, 2, 100, g, l)
	sum1 := 0.0
	for i := 0; i < g.N; i++ {
		sum1 += g.C1[i]
	}
	resid := (sum1 - sum0) + (g.OUTSUM - out0) + (g.DRAINLOSS - dl0)
	t.Logf("dC1=%.6f leach=%.6f drainloss=%.6f residual=%.6f", sum1-sum0, g.OUTSUM-out0, g.DRAINLOSS-dl0, resid)
	if math.Abs(resid) > 1e-6 {
		t.Fatalf("N balance does not close: residual %.6f kg N/ha (drain loss booked but not removed)", resid)
	}
}
