package hermes

import "testing"

// A missing value on 31 December is the mean of 30 December and 1 January of the next year.
func TestF3MissingValueAtYearEnd(t *testing.T) {
	s := NewWeatherDataShared(2, 360)
	s.MaxYearDays[0], s.MaxYearDays[1] = 365, 365
	const none = -99.9
	s.TMP[0][363] = 4  // 30 December
	s.TMP[0][364] = none // 31 December: missing
	s.TMP[1][0] = 10   // 1 January
	s.TMP[1][1] = 30   // 2 January
	s.replaceMissingValues(2, none)
	if got, want := s.TMP[0][364], (4.0+10.0)/2; got != want {
		t.Fatalf("31 December replaced by %v, mean of the adjacent days is %v", got, want)
	}
}
