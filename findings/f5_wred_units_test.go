package hermes

import "testing"

// run.go (restore after a groundwater change) and input.go (pedotransfer route) call
// calcWRed(g.WMIN[0], g.W[0], g) with fractions, but calcWRed expects percent and divides by 100.
func TestF5ReducedMineralisationThreshold(t *testing.T) {
	g := &GlobalVarsMain{}
	g.BART[0] = "SL2"
	g.WMIN[0], g.W[0] = 0.10, 0.30
	restoreThreshold(g)
	if !(g.WMIN[0] < g.WRED && g.WRED < g.W[0]) {
		t.Fatalf("WRED = %v is not between wilting point %v and field capacity %v", g.WRED, g.WMIN[0], g.W[0])
	}
}
