package hermes

// F32 (C04): a year file of the one-file-per-year weather layout that ENDS EARLY (days 1..300) is accepted; the model then
// treats the year as 300 days long, rolls over to the next year file on 28 October and from there on every simulated day is
// driven by the record of ANOTHER date, without any error. The property asks for an error when the weather input does not
// cover a simulated day.

import (
	"fmt"
	"io/fs"
	"os"
	"path/filepath"
	"strconv"
	"strings"
	"testing"
	"time"
)

// ---------- helpers ----------

func f32CopyTree(t *testing.T, src, dst string) {
	t.Helper()
	err := filepath.WalkDir(src, func(p string, d fs.DirEntry, err error) error {
		if err != nil {
			return err
		}
		rel, _ := filepath.Rel(src, p)
		target := filepath.Join(dst, rel)
		if d.IsDir() {
			return os.MkdirAll(target, 0o755)
		}
		data, err := os.ReadFile(p)
		if err != nil {
			return err
		}
		return os.WriteFile(target, data, 0o644)
	})
	if err != nil {
		t.Fatal(err)
	}
}

const f32Daily = `FillCharacter: ' '
SeperatorCharacter: ','
NaValue: n.a.
DataColumns:
- Format: '%s'
  DataAlignment: left
  Width: 10
  VariableName: AKTUELL
- Format: '%.4f'
  DataAlignment: left
  Width: 10
  VariableName: TEMPdaily
- Format: '%.4f'
  DataAlignment: left
  Width: 10
  VariableName: TMINdaily
- Format: '%.4f'
  DataAlignment: left
  Width: 10
  VariableName: TMAXdaily
- Format: '%.5f'
  DataAlignment: left
  Width: 10
  VariableName: REGENdaily
`

type f32Rec struct{ tavg, tmin, tmax, precip float64 }

// classic year file -> records by day of year (first line carrying that day wins)
func f32ReadClassic(t *testing.T, file string) map[int]f32Rec {
	t.Helper()
	data, err := os.ReadFile(file)
	if err != nil {
		t.Fatal(err)
	}
	recs := map[int]f32Rec{}
	for i, line := range strings.Split(strings.ReplaceAll(string(data), "\r", ""), "\n") {
		if i < 3 || strings.TrimSpace(line) == "" {
			continue
		}
		tok := strings.Split(line, ";")
		f := func(s string) float64 { v, _ := strconv.ParseFloat(strings.TrimSpace(s), 64); return v }
		doy, _ := strconv.Atoi(strings.TrimSpace(tok[10]))
		if _, ok := recs[doy]; !ok {
			recs[doy] = f32Rec{f(tok[0]), f(tok[1]), f(tok[2]), f(tok[9])}
		}
	}
	return recs
}

// prepares a private copy of the example project MUN (classic weather layout), returns the root
func f32Project(t *testing.T) string {
	t.Helper()
	tmp := t.TempDir()
	f32CopyTree(t, "../examples/project/MUN", filepath.Join(tmp, "project", "MUN"))
	f32CopyTree(t, "../examples/parameter", filepath.Join(tmp, "parameter"))
	f32CopyTree(t, "../examples/weather/MUN", filepath.Join(tmp, "weather", "MUN"))
	if err := os.WriteFile(filepath.Join(tmp, "project", "MUN", "dailyout_conf.yml"), []byte(f32Daily), 0o644); err != nil {
		t.Fatal(err)
	}
	return tmp
}

// runs the real simulator, returns the run result and the number of output days whose weather echo
// is not the record of the output date
func f32Run(t *testing.T, root string) (res *RunReturn, days, wrongDays int, firstWrong string) {
	t.Helper()
	resDir := filepath.Join(root, "RES")
	args := strings.Fields("project=MUN WeatherFolder=MUN soilId=001 fcode=NEU plotNr=00001 Altitude=55 Latitude=54.00 poligonID=MUN parameter=./parameter StartYear=2009 EndDate=31052012 resultfolder=" + resDir)
	session := NewHermesSession()
	out := make(chan *RunReturn, 1)
	logout := make(chan string, 100)
	done := make(chan bool)
	go func() {
		for range logout {
		}
		done <- true
	}()
	session.Run(root, args, "c04demo1", out, logout)
	res = <-out
	close(logout)
	<-done

	data, err := os.ReadFile(filepath.Join(resDir, "VMUN00001.RES"))
	if err != nil {
		return res, 0, 0, ""
	}
	byYear := map[int]map[int]f32Rec{}
	for _, line := range strings.Split(string(data), "\n") {
		tok := strings.Fields(line)
		if len(tok) < 5 {
			continue
		}
		date, err := time.Parse("02.01.2006", tok[0])
		if err != nil {
			continue // header
		}
		days++
		if _, ok := byYear[date.Year()]; !ok {
			byYear[date.Year()] = f32ReadClassic(t, filepath.Join(root, "weather", "MUN", fmt.Sprintf("MET_NEU.0%02d", date.Year()-2000)))
		}
		want, ok := byYear[date.Year()][date.YearDay()]
		f := func(s string) float64 { v, _ := strconv.ParseFloat(s, 64); return v }
		near := func(a, b float64) bool { d := a - b; return d < 1e-3 && d > -1e-3 }
		if !ok || !near(f(tok[1]), want.tavg) || !near(f(tok[2]), want.tmin) || !near(f(tok[3]), want.tmax) || !near(f(tok[4]), want.precip/10) {
			wrongDays++
			if firstWrong == "" {
				firstWrong = fmt.Sprintf("%s: echo tavg/tmin/tmax/rain[cm]=%s/%s/%s/%s, record of that date: %+v (found=%v)", tok[0], tok[1], tok[2], tok[3], tok[4], want, ok)
			}
		}
	}
	return res, days, wrongDays, firstWrong
}

func f32Lines(t *testing.T, file string) []string {
	t.Helper()
	data, err := os.ReadFile(file)
	if err != nil {
		t.Fatal(err)
	}
	return strings.Split(strings.TrimRight(strings.ReplaceAll(string(data), "\r", ""), "\n"), "\n")
}

// ---------- control: untouched input ----------

// sanity: on consistent input every output day echoes the record of its own date (passes with and without the change)

func TestF32_TruncatedYearFileEndsTheRun(t *testing.T) {
	root := f32Project(t)
	file := filepath.Join(root, "weather", "MUN", "MET_NEU.010")
	lines := f32Lines(t, file)
	// header lines + the first 300 daily records
	os.WriteFile(file, []byte(strings.Join(lines[:3+300], "\n")+"\n"), 0o644)
	res, days, wrong, first := f32Run(t, root)
	if res.Success {
		t.Errorf("C04 violated: MET_NEU.010 ends on day 300 of 2010 but the run (until 31.05.2012) ended WITHOUT error; %d of %d output days are not driven by the record of their own date; first: %s", wrong, days, first)
	} else {
		t.Logf("run ended with error as required: %v", res.Err)
	}
}

func TestF32_Control(t *testing.T) {
	root := f32Project(t)
	res, days, wrong, first := f32Run(t, root)
	if !res.Success || wrong != 0 {
		t.Errorf("control run on the complete files: success=%v, %d of %d days wrong (%s) %v", res.Success, wrong, days, first, res.Err)
	}
}
