package hermes

import (
	"os"
	"os/exec"
	"path/filepath"
	"testing"
)

// A texture that is missing in the capillary-rise table (PARCAP.TRU) must fail the run with an error, not
// abort the whole process (the batch would lose every other line). The call is made in a child process because the
// defect is a process exit.
func TestF11MissingParcapTextureIsARunError(t *testing.T) {
	if os.Getenv("HVC_F11_CHILD") == "1" {
		dir := os.Getenv("HVC_F11_DIR")
		g := NewGlobalVarsMain()
		g.Session = NewHermesSession()
		g.AZHO = 1
		g.BART[0] = "XYZ"
		g.LD[0] = 2
		var l InputSharedVars
		hp := &HFilePath{parcap: filepath.Join(dir, "PARCAP.TRU"), hypar: filepath.Join(dir, "HYPAR.TRU")}
		_, err := Hydro(1, &g, &l, hp)
		if err == nil {
			os.Exit(3) // no error reported
		}
		os.Exit(0) // reported as a run error
	}
	dir := t.TempDir()
	parcap := "SU   .055  .055  .055  .055  .055  .055  .055  .05   .03   .02\n     .015  .01   .0075 .005  .004  .003  .002  .001  .0    .0\n"
	os.WriteFile(filepath.Join(dir, "PARCAP.TRU"), []byte(parcap), 0o644)
	os.WriteFile(filepath.Join(dir, "HYPAR.TRU"), []byte("XYZ 30 28 26 10 09 08 40 38 36 10\n"), 0o644)
	cmd := exec.Command(os.Args[0], "-test.run", "TestF11MissingParcapTextureIsARunError")
	cmd.Env = append(os.Environ(), "HVC_F11_CHILD=1", "HVC_F11_DIR="+dir)
	out, err := cmd.CombinedOutput()
	if err != nil {
		t.Fatalf("texture missing in PARCAP.TRU: the process was aborted instead of the run returning an error: %v\n%s", err, out)
	}
}
