package hermes

// Finding F22 (C10): demonstration for (scheduled management actions take effect exactly once, on time, in full).
//
// Runs the real simulation (HermesSession.Run) on a small copy of the example project "myP" with a hand written
// fertilisation schedule and checks, from the management event log, that every scheduled fertilisation inside the
// simulated period is carried out exactly once, in schedule order, not before its date, and that fertilisations
// dated before the simulation start are ignored.

import (
	"bufio"
	"fmt"
	"io"
	"os"
	"path/filepath"
	"strings"
	"testing"
	"time"
)

type f22Fert struct {
	amount string // as written in the schedule
	typ    string
	date   string // mmddyyyy
}

type f22Event struct {
	date time.Time
	typ  string
	ndir string
}

func f22CopyFile(t *testing.T, src, dst string) {
	t.Helper()
	in, err := os.Open(src)
	if err != nil {
		t.Fatal(err)
	}
	defer in.Close()
	if err := os.MkdirAll(filepath.Dir(dst), 0o755); err != nil {
		t.Fatal(err)
	}
	out, err := os.Create(dst)
	if err != nil {
		t.Fatal(err)
	}
	defer out.Close()
	if _, err := io.Copy(out, in); err != nil {
		t.Fatal(err)
	}
}

func f22CopyDir(t *testing.T, src, dst string) {
	t.Helper()
	entries, err := os.ReadDir(src)
	if err != nil {
		t.Fatal(err)
	}
	for _, e := range entries {
		if e.IsDir() {
			continue
		}
		f22CopyFile(t, filepath.Join(src, e.Name()), filepath.Join(dst, e.Name()))
	}
}

// f22Run sets up a project with the given fertilisation schedule for field SOYSM1, runs it and returns the
// fertilisation events of the management log (without the residue pseudo event of the simulation start, which has no
// fertiliser name).
func f22Run(t *testing.T, schedule []f22Fert) []f22Event {
	t.Helper()
	examples, err := filepath.Abs(filepath.Join("..", "examples"))
	if err != nil {
		t.Fatal(err)
	}
	root := t.TempDir()
	f22CopyDir(t, filepath.Join(examples, "parameter"), filepath.Join(root, "parameter"))
	f22CopyDir(t, filepath.Join(examples, "project", "myP"), filepath.Join(root, "project", "myP"))
	f22CopyFile(t, filepath.Join(examples, "project", "ex3", "managementout_conf.yml"), filepath.Join(root, "project", "myP", "managementout_conf.yml"))
	f22CopyFile(t, filepath.Join(examples, "weather", "historical", "109_120.csv"), filepath.Join(root, "weather", "historical", "109_120.csv"))

	prj := filepath.Join(root, "project", "myP")
	// configuration: everything scheduled by hand, short period, management log on
	confBytes, err := os.ReadFile(filepath.Join(prj, "config.yml"))
	if err != nil {
		t.Fatal(err)
	}
	var conf []string
	for _, line := range strings.Split(string(confBytes), "\n") {
		switch {
		case strings.HasPrefix(line, "AutoIrrigation:"):
			line = "AutoIrrigation: 0"
		case strings.HasPrefix(line, "EndDate:"):
			line = `EndDate: "12311983"`
		case strings.HasPrefix(line, "WeatherRootFolder:"):
			line = fmt.Sprintf("WeatherRootFolder: %q", filepath.Join(root, "weather"))
		}
		conf = append(conf, line)
	}
	conf = append(conf, "ManagementEvents: 1", "")
	if err := os.WriteFile(filepath.Join(prj, "config.yml"), []byte(strings.Join(conf, "\n")), 0o644); err != nil {
		t.Fatal(err)
	}
	// rotation: simulation starts with the harvest of the first (previous) crop, 09/30/1980
	crop := "Field_ID    crp  sowing harvst Rex yld autorg variety comment\n" +
		"SOYSM1    SM  05151980 09301980 080 050 0 \n" +
		"SOYSM1    SOY 05151981 09301981 000 000 0 \n" +
		"SOYSM1    SM  05151982 09301982 000 000 0 \n" +
		"SOYSM1    SOY 05151983 09301983 000 000 0 \n" +
		"end\n"
	if err := os.WriteFile(filepath.Join(prj, "crop_myP.txt"), []byte(crop), 0o644); err != nil {
		t.Fatal(err)
	}
	var sb strings.Builder
	sb.WriteString("Field_ID  N   Frt date\n")
	for _, f := range schedule {
		sb.WriteString(fmt.Sprintf("SOYSM1    %s %s  %s\n", f.amount, f.typ, f.date))
	}
	sb.WriteString("SMSOY2    200 RM  03031981\nend\n")
	if err := os.WriteFile(filepath.Join(prj, "fert_myP.txt"), []byte(sb.String()), 0o644); err != nil {
		t.Fatal(err)
	}

	session := NewHermesSession()
	defer session.Close()
	session.Run(root, []string{"project=myP", "WeatherFolder=historical", "soilId=075", "plotNr=10001",
		"Altitude=73", "Latitude=52.6732", "poligonID=29872", "resultfolder=" + filepath.Join(root, "RESULT")}, "1", nil, nil)

	matches, _ := filepath.Glob(filepath.Join(root, "RESULT", "M*"))
	if len(matches) != 1 {
		t.Fatalf("expected one management log, found %v", matches)
	}
	f, err := os.Open(matches[0])
	if err != nil {
		t.Fatal(err)
	}
	defer f.Close()
	var events []f22Event
	sc := bufio.NewScanner(f)
	for sc.Scan() {
		tok := strings.Fields(sc.Text())
		if len(tok) < 2 || tok[1] != "fertilization" {
			continue
		}
		ev := f22Event{}
		ev.date, err = time.Parse("01.02.2006", tok[0])
		if err != nil {
			t.Fatalf("bad date in log line %q", sc.Text())
		}
		for i := 2; i+1 < len(tok); i++ {
			if tok[i] == "Fertilizer:" && !strings.HasSuffix(tok[i+1], ":") {
				ev.typ = tok[i+1]
			}
			if tok[i] == "Ndirect:" {
				ev.ndir = tok[i+1]
			}
		}
		if ev.typ == "" {
			continue // harvest residues of the previous crop at simulation start
		}
		events = append(events, ev)
	}
	return events
}

func f22Check(t *testing.T, want []f22Fert, got []f22Event) {
	t.Helper()
	for i, ev := range got {
		t.Logf("carried out #%d: %s %s Ndirect=%s", i+1, ev.date.Format("01/02/2006"), ev.typ, ev.ndir)
	}
	if len(got) != len(want) {
		t.Errorf("C10 violated: %d fertilisations scheduled inside the simulated period, %d carried out", len(want), len(got))
	}
	for i := 0; i < len(want) && i < len(got); i++ {
		sched, _ := time.Parse("01022006", want[i].date)
		if got[i].typ != want[i].typ {
			t.Errorf("C10 violated: event #%d is %s, schedule order wants %s", i+1, got[i].typ, want[i].typ)
		}
		if got[i].date.Before(sched) {
			t.Errorf("C10 violated: event #%d (%s) carried out %s, before its scheduled date %s", i+1, got[i].typ, got[i].date.Format("01/02/2006"), sched.Format("01/02/2006"))
		}
		if i > 0 && !got[i].date.After(got[i-1].date) {
			t.Errorf("C10 violated: event #%d not carried out after event #%d", i+1, i)
		}
	}
}

// two fertilisations on each of two consecutive days: every one is within the schedule domain of the property
// (ascending dates, at most two per day), so all must be carried out, in order.
func TestF22TwoDoubleDaysInARow(t *testing.T) {
	schedule := []f22Fert{
		{"200", "RM", "03031982"},
		{"50", "KAS", "04101982"},
		{"40", "AHL", "04101982"},
		{"30", "NPK", "04111982"},
		{"25", "SSA", "04111982"},
		{"20", "BAK", "05011982"},
		{"60", "URE", "04201983"},
	}
	got := f22Run(t, schedule)
	f22Check(t, schedule, got)
}
