package hermes

import "testing"

// Potential and actual evapotranspiration must never be negative. With the Turc-Wendling method (ETMETH 2) the
// formula's factor (T + 22) turns negative for daily mean temperatures below -22 degree C; before the fix the
// potential ET, the actual evaporation and the surface flux were negative on such days.
func TestF14TurcWendlingNotNegativeInHardFrost(t *testing.T) {
	for _, crop := range []bool{false, true} {
		g := NewGlobalVarsMain()
		l := &WaterSharedVars{}
		g.N = 10
		g.DZ = DualType{Index: 10, Num: 10}
		g.DT = DualType{Index: 1, Num: 1}
		g.TAG = DualType{Index: 14, Num: 15}
		g.ETMETH = 2
		g.LAT = 52.5
		g.FKC, g.FKB, g.KCOA = 1, 1, 1
		g.GRW = 99
		for i := 0; i <= g.N; i++ {
			g.W[i], g.WMIN[i], g.WNOR[i], g.PORGES[i] = 0.3, 0.1, 0.3, 0.4
			g.WG[0][i], g.WG[1][i] = 0.25, 0.25
		}
		g.TEMP[14], g.TMIN[14], g.TMAX[14] = -30, -35, -25
		g.RAD[14] = 2
		g.BEGINN = 1
		if crop {
			g.SAAT[0], g.ERNTE[0], g.ERNTE2[0] = 10, 400, 400
			g.INTWICK = DualType{Index: 1, Num: 2, Offset: 1}
			g.WURZ = 3
			g.LAI = 1
		}
		before := g.VERDUNST
		Evatra(l, &g, &HFilePath{}, 100)
		if pet := g.VERDUNST - before; pet < 0 {
			t.Errorf("crop=%v: potential evapotranspiration %g cm is negative at -30 degree C", crop, pet)
		}
		if g.ETA < 0 {
			t.Errorf("crop=%v: actual evaporation %g cm is negative at -30 degree C", crop, g.ETA)
		}
	}
}
