package hermes

// Finding F4 (C04): if the weather input does not cover a simulated year the run must end with an error
// instead of silently reusing the days of another year.

import (
	"fmt"
	"io"
	"os"
	"path/filepath"
	"strings"
	"testing"
)

func f4CopyFile(t *testing.T, src, dst string) {
	t.Helper()
	in, err := os.Open(src)
	if err != nil {
		t.Fatal(err)
	}
	defer in.Close()
	if err := os.MkdirAll(filepath.Dir(dst), 0o755); err != nil {
		t.Fatal(err)
	}
	out, err := os.Create(dst)
	if err != nil {
		t.Fatal(err)
	}
	defer out.Close()
	if _, err := io.Copy(out, in); err != nil {
		t.Fatal(err)
	}
}

func f4CopyDir(t *testing.T, src, dst string) {
	t.Helper()
	entries, err := os.ReadDir(src)
	if err != nil {
		t.Fatal(err)
	}
	for _, e := range entries {
		if e.IsDir() {
			continue
		}
		f4CopyFile(t, filepath.Join(src, e.Name()), filepath.Join(dst, e.Name()))
	}
}


func TestF4MissingWeatherYearIsAnError(t *testing.T) {
	examples, err := filepath.Abs(filepath.Join("..", "examples"))
	if err != nil {
		t.Fatal(err)
	}
	root := t.TempDir()
	f4CopyDir(t, filepath.Join(examples, "parameter"), filepath.Join(root, "parameter"))
	f4CopyDir(t, filepath.Join(examples, "project", "myP"), filepath.Join(root, "project", "myP"))
	// weather series that ends on 31.12.1981 although the run is configured until 31.12.1982
	full, err := os.ReadFile(filepath.Join(examples, "weather", "historical", "109_120.csv"))
	if err != nil {
		t.Fatal(err)
	}
	var kept []string
	for _, line := range strings.Split(string(full), "\n") {
		if strings.HasPrefix(line, "1982-") || strings.HasPrefix(line, "1983-") || strings.HasPrefix(line, "1984-") || strings.HasPrefix(line, "1985-") || strings.HasPrefix(line, "1986-") || strings.HasPrefix(line, "1987-") || strings.HasPrefix(line, "1988-") || strings.HasPrefix(line, "1989-") || strings.HasPrefix(line, "199") || strings.HasPrefix(line, "20") {
			continue
		}
		kept = append(kept, line)
	}
	os.MkdirAll(filepath.Join(root, "weather", "historical"), 0o755)
	if err := os.WriteFile(filepath.Join(root, "weather", "historical", "109_120.csv"), []byte(strings.Join(kept, "\n")), 0o644); err != nil {
		t.Fatal(err)
	}
	prj := filepath.Join(root, "project", "myP")
	confBytes, _ := os.ReadFile(filepath.Join(prj, "config.yml"))
	var conf []string
	for _, line := range strings.Split(string(confBytes), "\n") {
		switch {
		case strings.HasPrefix(line, "EndDate:"):
			line = `EndDate: "12311982"`
		case strings.HasPrefix(line, "WeatherRootFolder:"):
			line = fmt.Sprintf("WeatherRootFolder: %q", filepath.Join(root, "weather"))
		}
		conf = append(conf, line)
	}
	os.WriteFile(filepath.Join(prj, "config.yml"), []byte(strings.Join(conf, "\n")), 0o644)
	session := NewHermesSession()
	defer session.Close()
	out := make(chan *RunReturn, 1)
	logout := make(chan string, 100)
	session.Run(root, []string{"project=myP", "WeatherFolder=historical", "soilId=075", "plotNr=10001",
		"Altitude=73", "Latitude=52.6732", "poligonID=29872", "resultfolder=" + filepath.Join(root, "RESULT")}, "1", out, logout)
	res := <-out
	if res.Success {
		t.Fatalf("run over 1980-1982 succeeded although the weather series ends in 1981: the days of 1982 were taken from another year")
	}
	t.Logf("run failed as required: %v", res.Err)
}
