package hermes

// F26 (C10): "actions dated before the simulation start are ignored". The irrigation reader of Input compares the date of
// a row with g.BEGINN to drop rows before the simulation start - but g.BEGINN is only assigned further down in Input (from
// the harvest date of the initial crop), so at that point it is still 0 and no row is ever dropped. A row dated before the
// start is kept in the schedule; the irrigation cursor of the day loop waits for that date, which never comes, and every
// later irrigation of the run is silently skipped. The real simulator is run on a small project derived from
// examples/project/myP (start 30.09.1980): the schedule below has one row before the start and three inside the period.

import (
	"fmt"
	"math"
	"os"
	"path/filepath"
	"strconv"
	"strings"
	"testing"
	"time"
)

const f26ManagementConf = `eventformats:
  tillage:
    eventname: tillage
    enabled: true
    additionalfields:
      Depth: '%dcm'
      Type: '%d'
  irrigation:
    eventname: irrigation
    enabled: true
    additionalfields:
      Amount: '%dmm'
  sowing:
    eventname: sowing
    enabled: true
    additionalfields:
      Crop: '%s'
  harvest:
    eventname: harvest
    enabled: true
    additionalfields:
      Crop: '%s'
  fertilization:
    eventname: fertilization
    enabled: true
    additionalfields:
      Fertilizer: '%s'
seperatorrune: 32
`

// daily output: date, irrigation that was added to the precipitation of the day (cm), precipitation of the weather file (cm)
const f26DailyConf = `FillCharacter: ' '
SeperatorCharacter: ','
NaValue: n.a.
DataColumns:
- Format: '%s'
  DataAlignment: left
  Width: 10
  VariableName: AKTUELL
- Format: '%.6f'
  DataAlignment: left
  Width: 12
  VariableName: EffectiveIRRIG
- Format: '%.6f'
  DataAlignment: left
  Width: 12
  VariableName: REGENdaily
Headlines:
  1:
  - ColumnName: Date
    TextAlignment: left
    StartColumn: 1
    EndColumn: 1
    FillCharacter: ' '
  - ColumnName: EffIRRIG
    TextAlignment: left
    StartColumn: 2
    EndColumn: 2
    FillCharacter: ' '
  - ColumnName: REGENdaily
    TextAlignment: left
    StartColumn: 3
    EndColumn: 3
    FillCharacter: ' '
`

type f26Irr struct {
	field string
	date  string // MMDDYYYY
	mm    float64
}

const f26Crop = "Field_ID    crp  sowing harvst Rex yld autorg variety comment\n" +
	"SOYSM1    SM  05151980 09301980 080 050 0 \n" +
	"SOYSM1    SOY 05151981 09301981 000 000 0 \n" +
	"SOYSM1    SM  05151982 09301982 000 000 0 \n" +
	"SMSOY2    SOY 05151980 09301980 080 050 0 \n" +
	"SMSOY2    SM  05151981 09301981 000 000 0 \n" +
	"SMSOY2    SOY 05151982 09301982 000 000 0 \n" +
	"end\n"

// f26Run runs the simulator for one plot and returns the management event lines and the daily irrigation (cm) by date
func f26Run(t *testing.T, irr string, plotNr string) (events []string, daily map[string]float64) {
	t.Helper()
	examples, err := filepath.Abs(filepath.Join("..", "examples"))
	if err != nil {
		t.Fatal(err)
	}
	root := t.TempDir()
	proj := filepath.Join(root, "project", "myP")
	if err := os.MkdirAll(proj, 0o755); err != nil {
		t.Fatal(err)
	}
	if err := os.Symlink(filepath.Join(examples, "parameter"), filepath.Join(root, "parameter")); err != nil {
		t.Fatal(err)
	}
	src := filepath.Join(examples, "project", "myP")
	for _, f := range []string{"automan.txt", "cropout_conf.yml", "yearlyout_conf.yml", "endit_myP.txt", "soil_myP.csv"} {
		b, err := os.ReadFile(filepath.Join(src, f))
		if err != nil {
			t.Fatal(err)
		}
		if err := os.WriteFile(filepath.Join(proj, f), b, 0o644); err != nil {
			t.Fatal(err)
		}
	}
	cfg, err := os.ReadFile(filepath.Join(src, "config.yml"))
	if err != nil {
		t.Fatal(err)
	}
	var out []string
	for _, line := range strings.Split(string(cfg), "\n") {
		key := strings.SplitN(line, ":", 2)[0]
		switch key {
		case "AutoSowingHarvest", "AutoFertilization", "AutoIrrigation", "AutoHarvest":
			line = key + ": 0"
		case "EndDate":
			line = `EndDate: "12311982"`
		case "WeatherRootFolder":
			line = fmt.Sprintf("WeatherRootFolder: %q", filepath.Join(examples, "weather"))
		case "ResultFileFormat":
			line = "ResultFileFormat: 1"
		}
		out = append(out, line)
	}
	out = append(out, "ManagementEvents: 1")
	write := func(name, content string) {
		if err := os.WriteFile(filepath.Join(proj, name), []byte(content), 0o644); err != nil {
			t.Fatal(err)
		}
	}
	write("config.yml", strings.Join(out, "\n")+"\n")
	write("managementout_conf.yml", f26ManagementConf)
	write("dailyout_conf.yml", f26DailyConf)
	write("crop_myP.txt", f26Crop)
	write("fert_myP.txt", "Field_ID  N   Frt date\nend\n")
	write("irr_myP.txt", irr)
	write("til_myP.txt", "Field_ID  Ti Typ date\n          cm\nend\n")
	write("poly_myP.txt", "Polyg SID  Field_ID  GH GL Ir comment\n"+
		"10001 002 SOYSM1    99 99 1 soy_maize\n"+
		"10002 002 SMSOY2    99 99 1 maize_soy\nend\n")

	result := filepath.Join(root, "RESULT")
	session := NewHermesSession()
	defer session.Close()
	session.Run(root, []string{"project=myP", "plotNr=" + plotNr, "poligonID=1", "resultfolder=" + result}, "f26", nil, nil)

	read := func(pattern string) []string {
		m, _ := filepath.Glob(filepath.Join(result, pattern))
		if len(m) != 1 {
			t.Fatalf("expected one result file %s, got %v", pattern, m)
		}
		b, err := os.ReadFile(m[0])
		if err != nil {
			t.Fatal(err)
		}
		return strings.Split(strings.TrimSpace(string(b)), "\n")
	}
	events = read("M*.txt")
	daily = make(map[string]float64)
	for _, row := range read("V*.csv") {
		tok := strings.Split(row, ",")
		if _, err := time.Parse("01.02.2006", strings.TrimSpace(tok[0])); err != nil {
			continue // head line
		}
		v, err := strconv.ParseFloat(strings.TrimSpace(tok[1]), 64)
		if err != nil {
			t.Fatalf("daily output %q: %v", row, err)
		}
		daily[strings.TrimSpace(tok[0])] = v
	}
	return events, daily
}

func f26Check(t *testing.T, schedule []f26Irr, preStart []f26Irr) {
	irr := "Field_ID  Ir N03 date\n          mm mg/l \n"
	for _, e := range preStart {
		irr += fmt.Sprintf("%-9s %02.0f  00 %s\n", e.field, e.mm, e.date)
	}
	for _, e := range schedule {
		irr += fmt.Sprintf("%-9s %02.0f  00 %s\n", e.field, e.mm, e.date)
	}
	irr += "end\n"

	for _, plot := range [][2]string{{"10001", "SOYSM1"}, {"10002", "SMSOY2"}} {
		plotNr, field := plot[0], plot[1]
		var mine []f26Irr
		for _, e := range schedule {
			if e.field == field {
				mine = append(mine, e)
			}
		}
		events, daily := f26Run(t, irr, plotNr)
		var carriedOut []time.Time
		for _, line := range events {
			tok := strings.Fields(line)
			if len(tok) < 2 || tok[1] != "irrigation" {
				continue
			}
			d, err := time.Parse("01.02.2006", tok[0])
			if err != nil {
				t.Fatalf("event line %q: %v", line, err)
			}
			carriedOut = append(carriedOut, d)
		}
		t.Logf("field %s, management events:\n%s", field, strings.Join(events, "\n"))

		if len(carriedOut) != len(mine) {
			t.Errorf("C10 violated: field %s: %d irrigations scheduled inside the simulated period, %d carried out", field, len(mine), len(carriedOut))
		}
		wantWater := make(map[string]float64) // date -> cm
		for i, e := range mine {
			want, _ := time.Parse("01022006", e.date)
			if i >= len(carriedOut) {
				t.Errorf("C10 violated: field %s: irrigation %d (%v mm on %s) was never carried out", field, i+1, e.mm, want.Format("2006-01-02"))
				continue
			}
			got := carriedOut[i]
			delay := int(got.Sub(want).Hours() / 24)
			if delay < 0 || delay > 1 {
				t.Errorf("C10 violated: field %s: irrigation %d scheduled %s carried out %s", field, i+1, want.Format("2006-01-02"), got.Format("2006-01-02"))
			}
			wantWater[got.Format("01.02.2006")] = e.mm / 10
		}
		// the water is part of the infiltration of the day of the event, and of no other day
		sum := 0.0
		for date, cm := range daily {
			sum += cm
			if math.Abs(cm-wantWater[date]) > 1e-6 {
				t.Errorf("C10 violated: field %s: %s irrigation water %.2f cm, want %.2f cm", field, date, cm, wantWater[date])
			}
		}
		total := 0.0
		for _, e := range mine {
			total += e.mm / 10
		}
		if math.Abs(sum-total) > 1e-6 {
			t.Errorf("C10 violated: field %s: %.2f cm irrigation water applied in total, %.2f cm scheduled", field, sum, total)
		}
	}
}

// control: without the pre-start row the three irrigations are carried out
func TestF26_ControlWithoutPreStartRow(t *testing.T) {
	f26Check(t, []f26Irr{
		{"SOYSM1", "05251981", 15},
		{"SOYSM1", "06101981", 20},
		{"SOYSM1", "06251982", 12},
		{"SMSOY2", "05261981", 25},
	}, nil)
}

// one row dated before the simulation start (harvest of the initial crop is 30.09.1980): it has to be ignored and the
// three rows inside the period carried out
func TestF26_PreStartIrrigationIsIgnored(t *testing.T) {
	f26Check(t, []f26Irr{
		{"SOYSM1", "05251981", 15},
		{"SOYSM1", "06101981", 20},
		{"SOYSM1", "06251982", 12},
		{"SMSOY2", "05261981", 25},
	}, []f26Irr{{"SOYSM1", "07011980", 40}})
}
