package hermes

// F29 (C10/C02): with automatic fertilisation, an organic fertiliser tied to SOWING ("S") puts its mineral N directly into
// the mineral N of the top layer instead of the applied-fertiliser pool DSUMM (the harvest-tied "H" variant and every
// scheduled fertilisation use the pool). Run on a zuc-derived project; daily output of DSUMM, UMS and C1[0].

import (
	"fmt"
	"os"
	"path/filepath"
	"strconv"
	"strings"
	"testing"
)

const f29Rotation = `Field_ID,crp,sowing,harvst,Rex,yld,autorg,variety,comment
L2F3R1,WW ,01101979,04081980,080,050,1,,initial
L2F3R1,SM ,20041981,06091981,000,000,1,,
L2F3R1,WW ,01101981,04081982,000,000,0,,
`

func f29Conf() string {
	var b strings.Builder
	b.WriteString("FillCharacter: ' '\nSeperatorCharacter: ','\nNaValue: n.a.\nDataColumns:\n")
	cols := [][2]string{{"DATE", "AKTUELL"}, {"DSUMM", "DSUMM"}, {"UMS", "UMS"}, {"C1_0", "C1"}, {"NFOS0", "NFOS"}, {"NAOS0", "NAOS"}}
	for _, c := range cols {
		f := "%.9g"
		if c[1] == "AKTUELL" {
			f = "%s"
		}
		fmt.Fprintf(&b, "- Format: '%s'\n  DataAlignment: left\n  Width: 12\n  VariableName: %s\n", f, c[1])
	}
	b.WriteString("Headlines:\n  1:\n")
	for _, c := range cols {
		fmt.Fprintf(&b, "  - ColumnName: %s\n    TextAlignment: left\n", c[0])
	}
	return b.String()
}

func TestF29_SowingTiedOrganicFertiliserGoesThroughTheFertiliserPool(t *testing.T) {
	examples, _ := filepath.Abs(filepath.Join("..", "examples"))
	root := t.TempDir()
	os.Symlink(filepath.Join(examples, "parameter"), filepath.Join(root, "parameter"))
	os.Symlink(filepath.Join(examples, "weather"), filepath.Join(root, "weather"))
	prj := filepath.Join(root, "project", "f29")
	os.MkdirAll(prj, 0o755)
	src := filepath.Join(examples, "project", "zuc")
	entries, _ := os.ReadDir(src)
	for _, e := range entries {
		if e.IsDir() {
			continue
		}
		data, _ := os.ReadFile(filepath.Join(src, e.Name()))
		os.WriteFile(filepath.Join(prj, strings.Replace(e.Name(), "_zuc.", "_f29.", 1)), data, 0o644)
	}
	os.WriteFile(filepath.Join(prj, "crop_f29.csv"), []byte(f29Rotation), 0o644)
	os.WriteFile(filepath.Join(prj, "dailyout_conf.yml"), []byte(f29Conf()), 0o644)
	autoPath := filepath.Join(prj, "automan.txt")
	data, _ := os.ReadFile(autoPath)
	s := string(data)
	if !strings.Contains(s, "RM    200    H1") {
		t.Fatal("automan layout changed")
	}
	// organic fertiliser one day after SOWING instead of after harvest, for every crop
	s = strings.ReplaceAll(s, "RM    200    H1", "RM    200    S1")
	os.WriteFile(autoPath, []byte(s), 0o644)

	resultDir := filepath.Join(root, "RESULT")
	session := NewHermesSession()
	defer session.Close()
	out := make(chan *RunReturn, 1)
	logout := make(chan string, 1000)
	args := []string{"project=f29", "WeatherFolder=historical", "fcode=109_120", "plotNr=10001", "soilId=001",
		"poligonID=29872", "EndDate=31121981", "OutputIntervall=1", "resultfolder=" + resultDir}
	session.Run(root, args, "f29", out, logout)
	res := <-out
	if !res.Success {
		t.Fatalf("simulation failed: %v", res.Err)
	}
	files, _ := filepath.Glob(filepath.Join(resultDir, "V*"))
	if len(files) != 1 {
		t.Fatalf("daily file: %v", files)
	}
	raw, _ := os.ReadFile(files[0])
	lines := strings.Split(strings.TrimSpace(string(raw)), "\n")
	var prev []float64
	applied := 0
	for _, l := range lines[1:] {
		tok := strings.Split(l, ",")
		if len(tok) < 6 {
			continue
		}
		v := make([]float64, 6)
		for i := 1; i < 6; i++ {
			v[i], _ = strconv.ParseFloat(strings.TrimSpace(tok[i]), 64)
		}
		if prev != nil {
			dNFOS := v[4] - prev[4]
			// an organic fertiliser application: the fast organic pool of the top layer jumps by tens of kg N/ha
			// (only the first such jump: later ones in this run are harvest residues, which carry no mineral N)
			if dNFOS > 5 && applied == 0 {
				applied++
				dDSUMM := v[1] - prev[1]
				t.Logf("%s organic fertiliser applied: NFOS[0] +%.2f, fertiliser pool DSUMM +%.3f, mineral N of layer 1 %+.3f", strings.TrimSpace(tok[0]), dNFOS, dDSUMM, v[3]-prev[3])
				if dDSUMM <= 0 {
					t.Errorf("C10: %s the mineral N of the organic fertiliser did not enter the fertiliser pool (DSUMM %+.3f) but the soil solution directly (C1[0] %+.3f)", strings.TrimSpace(tok[0]), dDSUMM, v[3]-prev[3])
				}
			}
		}
		prev = v
	}
	if applied == 0 {
		t.Fatalf("no organic fertilisation seen in %d days", len(lines)-1)
	}
}
