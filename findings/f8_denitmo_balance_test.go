package hermes

import (
	"math"
	"testing"
)

// Denitrification on marsh soils: what the nitrate pool loses must be what CUMDENIT gains.
func TestF8DenitmoBalance(t *testing.T) {
	g := &GlobalVarsMain{}
	for i := 0; i < 9; i++ {
		g.WG[1][i] = 0.45
		g.PORGES[i] = 0.5
		g.C1[i] = 30
	}
	g.C1[6], g.C1[7], g.C1[8] = 40, 0.001, 60 // layer 8 nearly empty, layer 9 rich
	g.TEMP[0] = 20
	sum0 := 0.0
	for i := 0; i < 9; i++ {
		sum0 += g.C1[i]
	}
	c0 := g.CUMDENIT
	Denitmo(g)
	sum1 := 0.0
	for i := 0; i < 9; i++ {
		sum1 += g.C1[i]
	}
	lost, counted := sum0-sum1, g.CUMDENIT-c0
	t.Logf("removed from C1: %.6f, added to CUMDENIT: %.6f", lost, counted)
	if math.Abs(lost-counted) > 1e-9 {
		t.Fatalf("denitrification balance does not close: removed %.6f, counted %.6f", lost, counted)
	}
}
